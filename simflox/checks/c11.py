"""C11 — result dtype, shape and chunk metadata are plan-independent and truthful."""
from __future__ import annotations

import copy
import math

import numpy as np

from ..cases import dec_value, enc_value, gen_chunks
from ..cluster import TaskError, Violation
from ..oracle import spy_plan
from ..redcase import (
    ARG,
    BOOL,
    FIRSTLAST,
    MINMAX,
    PROD_FAMILY,
    SUM_FAMILY,
    VAR_FAMILY,
    call_chunked,
    call_eager,
    decode_case,
    exec_sim,
    gen_reduce_case,
    nblocks_reduced,
    plain_kwargs,
    shrink_reduce,
    simplify_knobs,
    swarm_knobs,
)
from ..runner import REFUSALS, Skip, classify_exception
from ..simexec import RunInfo
from ..tape import Tape

ID = "C11"
LEVEL = "exploration"
BUDGET = {"quick": 45, "thorough": 900}
RULE = (
    "One run = one call (reduction x input dtype in bool/int8..uint64/float32/64/datetime64/timedelta64 x dtype= in "
    "{None, narrower, wider} x fill_value in {None, int, NaN}) evaluated eagerly with every engine that accepts it and "
    "chunked under 3 random (method, reindex, chunking, engine, label kind) variants on the simulated cluster (faults on). "
    "Truthful: dtype, shape, chunks and array type announced by the lazy result are compared with EVERY computed output "
    "block taken at the scheduler seam (not with the assembled array), and with the assembled array; the first variant is also evaluated in ONE graph together with a sibling call that differs only in dtype= and both must come back with their announced dtype. Plan-independent: "
    "all evaluations of the call must have one dtype and one shape. Convention: with dtype=None and no fill in play the "
    "dtype must equal what NumPy itself returns for that reduction on that input dtype (table computed from NumPy at run "
    "time: sum/prod, mean/var/std, min/max/first/last, count/arg, all/any). Non-trivial iff some chunked variant has "
    ">=2 blocks. distinct_nontrivial = distinct (func, input dtype, dtype=, fill kind, set of resolved plans) cells."
)
ASSUMPTIONS = ["cells where the statement is open-ended (result widened to hold a fill_value; order statistics; datetime means) "
               "are checked for plan independence and truthfulness only", "sampled, not exhaustive"]
PROBES = ["dtype_sibling_cocomputed", "numpy_convention_checked", "blocks_checked", "unknown_chunk_sizes", "dtype_kw_narrower", "dtype_kw_wider",
          "fill_nan_on_int", "datetime_input", "engines_compared>=3", "resolved_cohorts", "resolved_blockwise"]

INT_DTYPES = ["i1", "i2", "i4", "i8", "u1", "u2", "u4", "u8"]
ALL_DTYPES = ["b1"] + INT_DTYPES + ["f4", "f8", "f8", "M8[ns]", "m8[ns]"]
DT_FUNCS = MINMAX + ["first", "last", "nanfirst", "nanlast", "count", "mean", "nanmean"]


def gen(tape: Tape, tier: str) -> dict:
    dtype = tape.choice("gen.dtype0", ALL_DTYPES)
    kind = np.dtype(dtype).kind
    if kind in "mM":
        funcs = DT_FUNCS
    elif kind == "b":
        funcs = SUM_FAMILY + MINMAX + BOOL + BOOL + ["nanfirst", "nanlast"] + VAR_FAMILY[:2]
    else:
        funcs = SUM_FAMILY + VAR_FAMILY + PROD_FAMILY + MINMAX + ARG + FIRSTLAST + ["median", "nanmedian", "quantile", "nanquantile"]
    alphabet = [0, 1, 2, 3] if kind in "iu" else None
    case = gen_reduce_case(
        tape,
        funcs=funcs,
        methods=(None,),
        reindexes=(None,),
        dtypes=(dtype,),
        label_kinds=("int", "int", "float"),
        nan_p_choices=(0.0, 0.2),
        max_n=16,
        max_groups=4,
        max_ndim=2,
        by_dask_p=0.0,
        expected_modes=("none", "none", "exact", "superset", "disjoint") if kind not in "mM" else ("none",),
        missing_label_p=0.1,
        value_alphabet=alphabet,
        patterns=["random", "periodic", "sorted", "runs"],
    )
    kw = dec_value(case["kwargs"])
    func = kw["func"]
    if kind == "b" and func in BOOL:
        pass
    # dtype= keyword
    dk = tape.choice("gen.dtypekw", [None, None, "narrower", "wider"])
    if dk is not None and kind in "iuf" and func not in ARG + BOOL + ["count", "median", "nanmedian", "quantile", "nanquantile"]:
        if kind == "f":
            kw["dtype"] = "f4" if dk == "narrower" else "f8"
        else:
            kw["dtype"] = ("i4" if dk == "narrower" else "f8") if func not in VAR_FAMILY + ["mean", "nanmean"] else ("f4" if dk == "narrower" else "f8")
    # fill kinds
    if "expected_groups" in kw:
        fk = tape.choice("gen.fillkind", ["none", "int", "nan"])
        labs = decode_case(case)[1][0]
        present = set(labs[labs == labs].tolist())
        if fk == "none" and set(np.asarray(kw["expected_groups"]).tolist()) <= present:
            # fill_value=None only when every requested label occurs (contract)
            kw.pop("fill_value", None)
        elif fk == "int":
            kw["fill_value"] = 0 if (kind in "bu" or func in BOOL) else tape.choice("gen.fillint", [0, -1, 2])
        elif fk == "nan" and func not in ARG + BOOL and kind not in "mMb":
            kw["fill_value"] = math.nan
    case["kwargs"] = enc_value(kw)
    # chunked variants
    n = case["array"]["shape"][-1]
    lead = case["array"]["shape"][:-1]
    variants = []
    labs0 = decode_case(case)[1][0]
    # blockwise only on layouts meeting its precondition after the automatic rechunk for 1-D labels: sequential
    # runs without a missing label inside (a missing label splits a run into two runs of the same group, which
    # the rechunk may leave in different blocks - outside the documented precondition)
    seq_ok = case["meta"]["pattern"] == "sorted" and not (labs0.dtype.kind == "f" and np.isnan(labs0).any())
    for _ in range(3):
        v = {
            "method": tape.choice("gen.v.method", [None, None, "map-reduce", "cohorts"] + (["blockwise"] if seq_ok else [])),
            "reindex": tape.choice("gen.v.reindex", [None, None, True, False]),
            "engine": tape.choice("gen.v.engine", [None, None, "numpy", "flox", "numbagg"]),
            "by_dask": tape.chance("gen.v.bydask", 0.15),
            "chunks": [gen_chunks(tape, s, "gen.v.lead", max_blocks=3) for s in lead] + [gen_chunks(tape, n, max_blocks=6)],
            "knobs": swarm_knobs(tape, 6),
        }
        v["knobs"]["backend"] = "A"
        v["knobs"]["optimize"] = False
        variants.append(v)
    case["variants"] = variants
    return case


def numpy_convention(func, dt: np.dtype):
    """What NumPy returns for this reduction on this dtype, or None if the statement is open-ended there."""
    z = np.zeros(2, dtype=dt)
    try:
        if func in ("sum", "nansum"):
            return np.sum(z).dtype
        if func in ("prod", "nanprod"):
            return np.prod(z).dtype
        if func in ("mean", "nanmean"):
            return None if dt.kind in "mM" else np.mean(z).dtype
        if func in ("var", "nanvar"):
            return np.var(z).dtype
        if func in ("std", "nanstd"):
            return np.std(z).dtype
        if func in MINMAX or func in FIRSTLAST:
            return dt
        if func == "count" or func in ARG:
            return np.dtype(np.intp)
        if func in BOOL:
            return np.dtype(bool)
    except TypeError:
        return None
    return None


def _variant_case(case, v):
    c = copy.deepcopy(case)
    kw = dict(c["kwargs"])
    for k in ("method", "reindex", "engine"):
        if v.get(k) is not None:
            kw[k] = enc_value(v[k])
    c["kwargs"] = kw
    c["chunks"] = v["chunks"]
    c["by_dask"] = v["by_dask"]
    c["knobs"] = v["knobs"]
    return c


def run(case, tape: Tape, ctx):
    import flox

    kw = plain_kwargs(case)
    func = kw["func"]
    arr, bys, kwargs = decode_case(case)
    seen = []  # (label, dtype, shape)
    # eager, every engine
    n_eng = 0
    for eng in (None, "numpy", "flox", "numbagg"):
        k2 = {k: v for k, v in kwargs.items() if k not in ("method", "reindex")}
        if eng is not None:
            k2["engine"] = eng
        try:
            r = flox.groupby_reduce(arr, *bys, **k2)
        except REFUSALS:
            ctx.skip_slot("eager-refused")
            continue
        except OverflowError:
            raise Skip("fill-not-representable")
        except Exception as e:  # noqa: BLE001
            cls, msg, det = classify_exception(e)
            det["which"] = f"eager[{eng}]"
            raise Violation(cls, msg, **det)
        n_eng += 1
        seen.append((f"eager[engine={eng}]", np.asarray(r[0]).dtype, np.asarray(r[0]).shape))
    if not seen:
        raise Skip("refused-everywhere")
    plans = []
    any_multi = False
    for vi, v in enumerate(case["variants"]):
        vc = _variant_case(case, v)
        try:
            with spy_plan() as plan:
                colls, assemble, out = call_chunked(vc)
        except REFUSALS:
            ctx.skip_slot("chunked-refused")
            continue
        except OverflowError:
            ctx.skip_slot("fill-not-representable")
            continue
        except Exception as e:  # noqa: BLE001
            cls, msg, det = classify_exception(e)
            det["which"] = f"chunked[{v['method']},{v['reindex']},{v['engine']}]"
            raise Violation(cls, msg, **det)
        lazy = out[0]
        which = f"chunked[method={plan.get('method')},reindex={plan.get('reindex')},engine={plan.get('engine')},by={'dask' if v['by_dask'] else 'np'}]"
        if not hasattr(lazy, "dask"):
            raise Violation("meta", f"{which}: returned {type(lazy).__name__}, not a lazy array", which=which)
        ann_dtype, ann_shape, ann_chunks = lazy.dtype, lazy.shape, lazy.chunks
        ann_type = type(lazy._meta)
        info = RunInfo()
        try:
            res = assemble(exec_sim(colls, tape, v["knobs"], ctx, info=info, block_keys_of=lazy))
        except TaskError as te:
            if isinstance(te.exc, OverflowError):
                ctx.skip_slot("fill-not-representable")
                continue
            if isinstance(te.exc, REFUSALS):
                # a refusal raised at compute time is C19's business, not a metadata question
                ctx.skip_slot("refused-at-compute")
                continue
            cls, msg, det = classify_exception(te)
            det["which"] = which
            raise Violation(cls, msg, **det)
        plans.append(plan.get("method"))
        any_multi = any_multi or len(v["chunks"][-1]) >= 2
        final = np.asarray(res[0])
        unknown = any(isinstance(c, float) and math.isnan(c) for ax in ann_chunks for c in ax)
        ctx.probe("unknown_chunk_sizes", unknown)
        if final.dtype != ann_dtype:
            raise Violation("meta", f"{which}: announced dtype {ann_dtype} but the computed array has {final.dtype}", which=which, what="dtype")
        if not unknown and final.shape != ann_shape:
            raise Violation("meta", f"{which}: announced shape {ann_shape} but the computed array has {final.shape}", which=which, what="shape")
        for bidx, blk in info.blocks.items():
            if type(blk) is not ann_type:
                raise Violation("meta", f"{which}: block {bidx} is a {type(blk).__name__}, announced array type {ann_type.__name__}", which=which, what="type")
            if blk.dtype != ann_dtype:
                raise Violation("meta", f"{which}: block {bidx} has dtype {blk.dtype}, announced {ann_dtype}", which=which, what="block-dtype")
            if not unknown:
                want = tuple(ann_chunks[ax][i] for ax, i in enumerate(bidx))
                if blk.shape != want:
                    raise Violation("meta", f"{which}: block {bidx} has shape {blk.shape}, announced chunk {want}", which=which, what="block-shape")
            ctx.count("blocks_checked")
        ctx.probe("blocks_checked", bool(info.blocks))
        seen.append((which, final.dtype, final.shape))
        ctx.probe("resolved_cohorts", plan.get("method") == "cohorts")
        ctx.probe("resolved_blockwise", plan.get("method") == "blockwise")
    # truthful also when two results that differ only in the requested dtype are evaluated in ONE graph
    if func not in ARG + BOOL + ["count", "median", "nanmedian", "quantile", "nanquantile"] and arr.dtype.kind in "iuf" and case["variants"]:
        v = case["variants"][0]
        sib = copy.deepcopy(_variant_case(case, v))
        skw = dict(sib["kwargs"])
        cur = kw.get("dtype")
        skw["dtype"] = enc_value("f8" if cur == "f4" else "f4")
        sib["kwargs"] = skw
        try:
            c1, _, o1 = call_chunked(_variant_case(case, v))
            c2, _, o2 = call_chunked(sib)
            if c1 and c2 and hasattr(o1[0], "dask") and hasattr(o2[0], "dask"):
                both = exec_sim([o1[0], o2[0]], tape, v["knobs"], ctx, info=RunInfo())
                for lazy, got, tag in ((o1[0], both[0], "first"), (o2[0], both[1], "dtype-sibling")):
                    if np.asarray(got).dtype != lazy.dtype:
                        raise Violation(
                            "meta", f"two lazy results differing only in dtype= ({cur!r} vs {dec_value(skw['dtype'])!r}) evaluated in one "
                            f"graph: the {tag} result announced {lazy.dtype} but the computed array has {np.asarray(got).dtype}",
                            what="co-computed-dtype")
                ctx.probe("dtype_sibling_cocomputed")
        except (TaskError, OverflowError) + REFUSALS:
            ctx.skip_slot("dtype-sibling-refused")
    # plan independence
    d0 = seen[0]
    for lab, dt, sh in seen[1:]:
        if dt != d0[1]:
            raise Violation("dtype", f"result dtype depends on the plan: {d0[0]} -> {d0[1]}, {lab} -> {dt} "
                            f"(func={func}, input {arr.dtype}, dtype={kw.get('dtype')}, fill={kw.get('fill_value')!r})",
                            a=d0[0], b=lab)
        if sh != d0[2]:
            raise Violation("dtype", f"result shape depends on the plan: {d0[0]} -> {d0[2]}, {lab} -> {sh}", a=d0[0], b=lab, what="shape")
    # NumPy's own convention where the statement is unambiguous
    fill_in_play = "fill_value" in kw
    if kw.get("dtype") is None and not fill_in_play and kw.get("min_count") is None:
        want = numpy_convention(func, arr.dtype)
        if want is not None:
            ctx.probe("numpy_convention_checked")
            if d0[1] != want:
                raise Violation("dtype", f"{func} of {arr.dtype} input gives {d0[1]} ({d0[0]}); NumPy's own reduction gives {want}",
                                what="convention", func=func, input=str(arr.dtype))
        else:
            ctx.skip_slot("convention-open-ended")
    elif kw.get("dtype") is not None and not fill_in_play:
        if d0[1] != np.dtype(kw["dtype"]) and func not in ARG + BOOL + ["count"]:
            raise Violation("dtype", f"dtype={kw['dtype']} requested but the result is {d0[1]} ({d0[0]}, func={func}, input {arr.dtype})",
                            what="requested", func=func)
    ctx.nontrivial = any_multi
    fk = "nofill" if not fill_in_play else ("nan" if isinstance(kw["fill_value"], float) and kw["fill_value"] != kw["fill_value"] else "int")
    ctx.cell(func, str(arr.dtype), kw.get("dtype"), fk, "+".join(sorted(set(str(p) for p in plans))))
    ctx.probe("dtype_kw_narrower", kw.get("dtype") in ("f4", "i4"))
    ctx.probe("dtype_kw_wider", kw.get("dtype") == "f8")
    ctx.probe("fill_nan_on_int", fk == "nan" and arr.dtype.kind in "iu")
    ctx.probe("datetime_input", arr.dtype.kind in "mM")
    ctx.probe("engines_compared>=3", n_eng >= 3)


def shrink(case):
    if len(case.get("variants", [])) > 1:
        for i in range(len(case["variants"])):
            c = copy.deepcopy(case)
            del c["variants"][i]
            yield c
    for c in shrink_reduce(case):
        # keep variant chunkings consistent with the shrunk array
        n = c["array"]["shape"][-1]
        lead = c["array"]["shape"][:-1]
        for v in c.get("variants", []):
            v["chunks"] = [[s] for s in lead] + [[n]] if sum(v["chunks"][-1]) != n or len(v["chunks"]) != len(lead) + 1 else v["chunks"]
        yield c


def simplify_knobs(case):
    for i, v in enumerate(case.get("variants", [])):
        if v["knobs"].get("faults"):
            c = copy.deepcopy(case)
            c["variants"][i]["knobs"]["faults"] = {}
            yield c
