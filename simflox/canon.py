"""Canonical key names.

dask tokens of flox graphs are not stable between processes (the Aggregation
token covers function objects), so raw key strings may not reach logs, sort
orders or replay files.  Every maximal 32-hex substring is mapped to an
ordinal by first appearance while walking the graph in insertion order, and
the graph handed to the simulated schedulers is *renamed* with that map, so
both backends (and dask.order inside backend B) see process-independent names.
"""
from __future__ import annotations

import hashlib
import re

from dask._task_spec import Alias, DataNode, GraphNode, convert_legacy_graph

# full 32-hex tokens anywhere; and, in names produced by graph fusion, truncated
# tokens / 4-hex name hashes standing alone between dashes
_TOKEN = re.compile(r"[0-9a-f]{32}|(?:(?<=-)|^)[0-9a-f]{4,31}(?=-|$)")


class Canon:
    def __init__(self):
        self.tokens: dict[str, str] = {}

    def _tok(self, m) -> str:
        t = m.group(0)
        c = self.tokens.get(t)
        if c is None:
            c = self.tokens[t] = f"T{len(self.tokens):03d}"
        return c

    def name(self, s: str) -> str:
        return _TOKEN.sub(self._tok, s)

    def key(self, k):
        if isinstance(k, tuple):
            return tuple(self.name(p) if isinstance(p, str) else p for p in k)
        if isinstance(k, str):
            return self.name(k)
        return k


def keystr(k) -> str:
    if isinstance(k, tuple):
        return k[0] + "".join(f"/{p}" for p in k[1:]) if isinstance(k[0], str) else repr(k)
    return str(k)


def sortkey(k):
    """Total order on canonical keys: name, then block index."""
    if isinstance(k, tuple):
        return (str(k[0]), tuple((0, p) if isinstance(p, int) else (1, str(p)) for p in k[1:]))
    return (str(k), ())


def _h(*parts) -> str:
    return hashlib.blake2b(repr(parts).encode(), digest_size=8).hexdigest()


def _sig(x, depth=0):
    """Process-independent structural signature of a task (function, literal arguments,
    masked key references): lets the colour refinement tell apart two layers that differ
    only in a keyword bound inside a functools.partial."""
    import functools

    from dask._task_spec import Task, TaskRef

    from .digest import digest

    if depth > 8:
        return "..."
    if isinstance(x, TaskRef):
        return ("ref", _mask(x.key))
    if isinstance(x, Alias):
        return ("alias", _mask(x.target))
    if isinstance(x, DataNode):
        return ("data", digest(x.value))
    if isinstance(x, Task):
        return ("task", _sig(x.func, depth + 1), tuple(_sig(a, depth + 1) for a in x.args),
                tuple(sorted((str(k), _sig(v, depth + 1)) for k, v in (x.kwargs or {}).items())))
    if isinstance(x, functools.partial):
        return ("partial", _sig(x.func, depth + 1), tuple(_sig(a, depth + 1) for a in x.args),
                tuple(sorted((str(k), _sig(v, depth + 1)) for k, v in (x.keywords or {}).items())))
    if isinstance(x, (list, tuple)):
        return (type(x).__name__, tuple(_sig(a, depth + 1) for a in x))
    if isinstance(x, dict):
        return ("dict", tuple((_mask(k) if isinstance(k, (str, tuple)) else str(k), _sig(v, depth + 1)) for k, v in x.items()))
    if isinstance(x, str):
        return _TOKEN.sub("#", x)
    if callable(x) and hasattr(x, "__qualname__"):
        return ("fn", getattr(x, "__module__", ""), x.__qualname__)
    funcs = getattr(x, "funcs", None)
    if funcs is not None and hasattr(x, "first"):  # toolz.compose
        return ("compose", _sig(x.first, depth + 1), tuple(_sig(f, depth + 1) for f in funcs))
    try:
        return ("v", digest(x))
    except Exception:  # noqa: BLE001
        return ("t", type(x).__name__)


def _mask(k):
    if isinstance(k, tuple):
        return repr([_TOKEN.sub("#", p) if isinstance(p, str) else p for p in k])
    if isinstance(k, str):
        return _TOKEN.sub("#", k)
    return repr(k)


def _token_order(g) -> list[str]:
    """Order the tokens occurring in key names by a structural colour (a few
    rounds of colour refinement over 'token occurs in key', dependencies and
    input-block contents), so that the ordinal a token gets does not depend on
    dict order, on the token's value or on the process."""
    from .digest import digest

    toks_of: dict = {}
    masked: dict = {}
    first_seen: dict[str, int] = {}
    for k in g:
        parts = k if isinstance(k, tuple) else (k,)
        ts = []
        m = []
        for p in parts:
            if isinstance(p, str):
                ts.extend(_TOKEN.findall(p))
                m.append(_TOKEN.sub("#", p))
            else:
                m.append(p)
        toks_of[k] = ts
        masked[k] = repr(m)
        for t in ts:
            first_seen.setdefault(t, len(first_seen))
    if len(first_seen) <= 1:
        return list(first_seen)
    keys_of: dict[str, list] = {t: [] for t in first_seen}
    for k, ts in toks_of.items():
        for t in set(ts):
            keys_of[t].append(k)
    dependents: dict = {k: [] for k in g}
    for k, node in g.items():
        for d in node.dependencies:
            if d in dependents:
                dependents[d].append(k)
    base = {}
    for k, node in g.items():
        kind = "data" if isinstance(node, DataNode) else ("alias" if isinstance(node, Alias) else "task")
        try:
            dg = digest(node.value) if kind == "data" else _h(_sig(node))
        except Exception:  # noqa: BLE001
            dg = ""
        base[k] = (masked[k], kind, dg)
    colour = {t: _h(sorted(base[k] for k in keys_of[t])) for t in first_seen}
    ncol = len(set(colour.values()))
    for _round in range(24):
        new = {}
        for t in first_seen:
            rows = []
            for k in keys_of[t]:
                up = sorted((masked[d], [colour[t2] for t2 in toks_of[d]]) for d in g[k].dependencies if d in toks_of)
                down = sorted((masked[d], [colour[t2] for t2 in toks_of[d]]) for d in dependents[k])
                rows.append((base[k], up, down))
            rows.sort()
            new[t] = _h(colour[t], rows)
        colour = new
        n2 = len(set(colour.values()))
        if n2 == len(colour) or (n2 == ncol and _round >= 3):
            break  # every token distinguished, or the partition stopped refining
        ncol = n2
    return sorted(first_seen, key=lambda t: (colour[t], first_seen[t]))


def canonical_graph(dsk, keys, canon: Canon | None = None):
    """Convert (legacy) graph to task-spec objects and rename every key.

    Returns (graph, keys, canon, keymap old->new).
    """
    canon = canon or Canon()
    g = dsk.__dask_graph__() if hasattr(dsk, "__dask_graph__") else dsk
    g = convert_legacy_graph(dict(g))
    for t in _token_order(g):
        if t not in canon.tokens:
            canon.tokens[t] = f"T{len(canon.tokens):03d}"
    keymap = {}
    for k in g:
        keymap[k] = canon.key(k)
    if len(set(keymap.values())) != len(keymap):  # pragma: no cover
        raise RuntimeError("canonical renaming is not injective")
    subs = {k: v for k, v in keymap.items() if k != v}
    out = {}
    for k in sorted(g, key=lambda k: sortkey(keymap[k])):
        node = g[k]
        nk = keymap[k]
        if subs:
            node = node.substitute(subs, key=nk)
        out[nk] = node

    def mapkeys(ks):
        if isinstance(ks, list):
            return [mapkeys(x) for x in ks]
        return keymap.get(ks, ks)

    return out, mapkeys(keys), canon, keymap


def node_kind(node: GraphNode) -> str:
    if isinstance(node, DataNode):
        return "data"
    if isinstance(node, Alias):
        return "alias"
    return "task"
