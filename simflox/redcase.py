"""Reduce / scan cases shared by several checks: generator, builder, shrinker."""
from __future__ import annotations

import copy
import math

import numpy as np

from .cases import (
    EXACT_FLOAT,
    PROD_FLOAT,
    PROD_INT,
    dec_array,
    dec_value,
    enc_array,
    enc_value,
    gen_chunks,
    gen_codes,
    gen_values,
    labels_from_codes,
)
from .tape import Tape

SUM_FAMILY = ["sum", "nansum", "mean", "nanmean", "count"]
VAR_FAMILY = ["var", "nanvar", "std", "nanstd"]
PROD_FAMILY = ["prod", "nanprod"]
MINMAX = ["max", "nanmax", "min", "nanmin"]
ARG = ["argmax", "nanargmax", "argmin", "nanargmin"]
FIRSTLAST = ["first", "last", "nanfirst", "nanlast"]
BOOL = ["all", "any"]
ORDER = ["median", "nanmedian", "quantile", "nanquantile"]
ALL_TREE_FUNCS = SUM_FAMILY + VAR_FAMILY + PROD_FAMILY + MINMAX + ARG + ["nanfirst", "nanlast"] + BOOL
BLOCKWISE_ONLY = ["first", "last"] + ORDER
SCANS = ["nancumsum", "ffill", "bfill"]

FAULT_KINDS = ["dup", "crash", "ser_task", "ser_result", "readonly", "ro_data", "spill"]


def swarm_knobs(tape: Tape, nblocks: int, *, allow_faults: bool = True, fault_free_p: float = 0.25) -> dict:
    """Per-run swarm configuration of the simulated system."""
    knobs = {
        "backend": tape.choice("swarm.backend", ["A", "A", "A", "B"]),
        "workers": tape.randint("swarm.workers", 1, 4),
        "optimize": tape.chance("swarm.optimize", 0.3),
        "thread_name": tape.choice("swarm.thread", ["MainThread", "MainThread", "ThreadPoolExecutor-0_0"]),
        "split_every": tape.randint("swarm.split_every", 2, max(2, min(nblocks, 8))),
        "faults": {},
    }
    if allow_faults and not tape.chance("swarm.faultfree", fault_free_p):
        kinds = [k for k in FAULT_KINDS if tape.chance("swarm.kind", 0.5)]
        rates = {"dup": [0.1, 0.3], "crash": [0.01, 0.03, 0.06], "ser_task": [0.3, 1.0], "ser_result": [0.3, 1.0],
                 "readonly": [0.5, 1.0], "ro_data": [0.5, 1.0], "spill": [0.05, 0.2]}
        for k in kinds:
            knobs["faults"][k] = tape.choice("swarm.rate", rates[k])
    return knobs


def gen_reduce_case(
    tape: Tape,
    *,
    funcs,
    methods=("map-reduce", "cohorts", None, "blockwise"),
    reindexes=(None, True, False),
    dtypes=("f8", "f8", "f4", "i8", "i4"),
    label_kinds=("int", "int", "float"),
    nan_p_choices=(0.0, 0.15, 0.4),
    max_n: int = 30,
    max_groups: int = 6,
    max_ndim: int = 2,
    by_dask_p: float = 0.15,
    expected_modes=("none", "none", "exact", "superset"),
    engines=(None,),
    missing_label_p: float = 0.1,
    max_blocks: int = 12,
    min_blocks: int = 1,
    patterns=None,
    allow_faults: bool = True,
    inexact_p: float = 0.0,
    value_alphabet=None,
    chunk_styles=None,
    fill_choices=None,
    min_counts=None,
    sort_choices=None,
    unsorted_expected_p: float = 0.0,
    by_dask_any_method: bool = False,
    block_missing_p: float = 0.08,
    bydask_exact_p: float = 0.5,
) -> dict:
    func = tape.choice("gen.func", funcs)
    method = tape.choice("gen.method", methods)
    if func in BLOCKWISE_ONLY and method not in (None, "blockwise"):
        method = "blockwise"
    n = tape.randint("gen.n", max(2, min_blocks), max_n)
    ngroups = tape.randint("gen.ngroups", 1, min(max_groups, n))
    pattern = None
    if patterns:
        pattern = tape.choice("gen.pattern", patterns)
    if method == "blockwise" or func in BLOCKWISE_ONLY:
        pattern = "sorted"
    codes, pattern = gen_codes(tape, n, ngroups, pattern)
    kind = tape.choice("gen.labkind", label_kinds)
    miss = tape.choice("gen.misslab", [0.0, 0.0, missing_label_p]) if kind in ("float",) else 0.0
    if method == "blockwise" or func in BLOCKWISE_ONLY:
        miss = 0.0
    labels, uniq = labels_from_codes(tape, codes, ngroups, kind, missing_p=miss)
    if pattern == "sorted" and kind in ("int", "float"):
        # keep labels monotone for blockwise-friendly layouts
        order = np.sort(np.asarray(uniq))
        labels = order[codes].astype(labels.dtype)
        uniq = order
    dtype = tape.choice("gen.dtype", dtypes)
    if func in BOOL:
        dtype = "b1"
    if np.dtype(dtype).itemsize < 4 and np.dtype(dtype).kind in "iu" and (func in PROD_FAMILY or func in VAR_FAMILY):
        # totals beyond the width of a narrow integer input are C20's subject (not a simulation target):
        # keep products / sums of squares of narrow ints out of this generator
        dtype = "i8"
    ndim = tape.randint("gen.ndim", 1, max_ndim)
    lead = [tape.randint("gen.lead", 1, 3) for _ in range(ndim - 1)]
    shape = lead + [n]
    total = int(np.prod(shape))
    dt = np.dtype(dtype)
    nan_p = tape.choice("gen.nanp", nan_p_choices) if dt.kind == "f" else 0.0
    if func in PROD_FAMILY:
        alphabet = PROD_FLOAT if dt.kind == "f" else (PROD_INT if dt.kind == "i" else None)
    elif inexact_p and dt.kind == "f" and tape.chance("gen.inexact", inexact_p):
        alphabet = [1 / 3, -2 / 3, 0.1, 1e8, -1e8, 1e-8, 7.0, 2.5]
    else:
        alphabet = None
    if value_alphabet is not None and func not in PROD_FAMILY:
        alphabet = [a for a in value_alphabet if dt.kind == "f" or float(a).is_integer()]
        if dt.kind == "u":
            alphabet = [a for a in alphabet if a >= 0]
        if dt.kind == "b":
            alphabet = [False, True]
    if func in ("argmax", "argmin"):
        nan_p = 0.0  # quantifier: arg* only on NaN-free groups
    if dt.kind in "mM":
        iv = gen_values(tape, total, dtype="i8", alphabet=[0, 1, 2, 3, 5, 8]).reshape(shape) * (86400 * 10**9)
        vals = iv.astype("int64").view(dt)
    else:
        vals = gen_values(tape, total, dtype=dtype, nan_p=nan_p, alphabet=alphabet).reshape(shape)
    if func in ("nanargmax", "nanargmin") and dt.kind == "f":
        # quantifier: nanarg* only on groups that are not entirely NaN (per batch slice)
        v2 = vals.reshape(-1, n)
        lab1 = np.asarray(labels).reshape(-1)
        for row in v2:
            for g, u in enumerate(np.asarray(uniq).tolist()):
                m = np.array([x == u for x in lab1.tolist()], dtype=bool)  # effective members (missing labels excluded)
                if m.any() and np.isnan(row[m]).all():
                    row[np.flatnonzero(m)[tape.draw("gen.fixnan", int(m.sum()))]] = float(g - 1)
    # chunking: leading axes and the reduced axis
    chunks = [gen_chunks(tape, s, "gen.chunks.lead", max_blocks=3) for s in lead]
    if method == "blockwise" or func in BLOCKWISE_ONLY:
        # chunk boundaries on group boundaries (precondition); or arbitrary for 1-D auto-rechunk
        bounds = [0] + [i for i in range(1, n) if codes[i] != codes[i - 1]] + [n]
        if tape.chance("gen.bw.arbitrary", 0.3):
            chunks.append(gen_chunks(tape, n, max_blocks=max_blocks))
        else:
            keep = [b for b in bounds[1:-1] if tape.chance("gen.bw.cut", 0.6)]
            edges = [0] + keep + [n]
            chunks.append([b - a for a, b in zip(edges[:-1], edges[1:])])
    else:
        c = gen_chunks(tape, n, max_blocks=max_blocks, style=tape.choice("gen.chunkstyle", chunk_styles) if chunk_styles else None)
        tries = 0
        while len(c) < min_blocks and tries < 5:
            c = gen_chunks(tape, n, max_blocks=max_blocks, style="random")
            tries += 1
        chunks.append(c)
    block_missing = False
    if (block_missing_p and kind == "float" and len(chunks[-1]) >= 2 and method != "blockwise" and func not in BLOCKWISE_ONLY
            and not (func in ("nanargmax", "nanargmin") and dt.kind == "f") and tape.chance("gen.blockmiss", block_missing_p)):
        # every label of one whole block is missing (a block that contributes no group at all)
        k = tape.draw("gen.blockmiss.k", len(chunks[-1]))
        edges = np.concatenate([[0], np.cumsum(chunks[-1])])
        lab2 = np.array(labels, dtype="f8")
        lab2[edges[k]:edges[k + 1]] = np.nan
        if not np.isnan(lab2).all():
            labels = lab2
            block_missing = True
    by_dask = tape.chance("gen.bydask", by_dask_p) and (by_dask_any_method or method in (None, "map-reduce"))
    expected_mode = tape.choice("gen.expected", expected_modes)
    kwargs: dict = {"func": func}
    present = [u for u in np.asarray(uniq).tolist()]
    if by_dask and expected_mode == "none" and tape.chance("gen.bydask.exp", bydask_exact_p):
        expected_mode = "exact"
    if expected_mode == "exact":
        kwargs["expected_groups"] = sorted(present) if kind != "str" else sorted(present)
    elif expected_mode == "superset":
        extra = _extra_labels(kind, present, tape)
        allv = present + extra
        kwargs["expected_groups"] = sorted(allv)
    elif expected_mode == "subset":
        keep = [p for p in present if tape.chance("gen.subset", 0.5)]
        extra = _extra_labels(kind, present, tape) if tape.chance("gen.subset.extra", 0.5) else []
        allv = keep + extra
        if not allv:
            allv = [present[0]]
        kwargs["expected_groups"] = sorted(allv)
    elif expected_mode == "disjoint":
        kwargs["expected_groups"] = sorted(_extra_labels(kind, present, tape))
    if expected_mode != "none" and unsorted_expected_p and tape.chance("gen.unsorted", unsorted_expected_p):
        kwargs["expected_groups"] = tape.shuffle("gen.unsorted.perm", kwargs["expected_groups"])
    if expected_mode != "none":
        if kind == "datetime":
            kwargs["expected_groups"] = np.array(kwargs["expected_groups"], dtype="M8[ns]")
        elif kind == "str":
            kwargs["expected_groups"] = np.array(kwargs["expected_groups"], dtype=object)
        else:
            kwargs["expected_groups"] = np.array(kwargs["expected_groups"])
    may_be_absent = expected_mode == "superset" or (expected_mode == "exact" and miss > 0) or True
    # a fill_value is supplied whenever a requested label may be absent (C02 quantifier)
    if expected_mode != "none":
        if func in ARG:
            kwargs["fill_value"] = -1
        elif func in BOOL:
            kwargs["fill_value"] = False
        elif dt.kind in "iub" and func not in ("mean", "nanmean") + tuple(VAR_FAMILY) + tuple(ORDER):
            # NaN on an integer result is legal: the result is widened to hold it (dtype promotion inside tasks)
            kwargs["fill_value"] = tape.choice("gen.fill", [0, -7, 100, math.nan])
            if dt.kind == "u" or dt.kind == "b":
                kwargs["fill_value"] = tape.choice("gen.fillu", [0, 100, math.nan] if dt.kind == "u" else [0, 100])
        else:
            kwargs["fill_value"] = tape.choice("gen.fill", [math.nan, math.nan, 0.0, -7.0])
    if fill_choices is not None and expected_mode != "none":
        fc = list(fill_choices)
        if func in ARG:
            fc = [f for f in fc if isinstance(f, (int, bool)) and not isinstance(f, float)] or [-1]
        if dt.kind in "iu" and dt.itemsize < 4 and func in MINMAX + FIRSTLAST:
            fc = [f for f in fc if isinstance(f, float) and f != f or abs(f) < 100] or [0]
        if dt.kind == "u" and func in MINMAX + FIRSTLAST:
            fc = [f for f in fc if (isinstance(f, float) and f != f) or f >= 0] or [0]
        if func in BOOL or (dt.kind == "b" and func in MINMAX + FIRSTLAST):
            # the result is boolean: only boolean fills are representable
            fc = [False, 0, False]
        kwargs["fill_value"] = tape.choice("gen.fillc", fc)
    if min_counts is not None:
        mc = tape.choice("gen.mincount", min_counts)
        if mc is not None:
            kwargs["min_count"] = mc
            if "fill_value" not in kwargs and mc > 0:
                kwargs["fill_value"] = math.nan if func not in ARG else -1
    if sort_choices is not None:
        srt = tape.choice("gen.sort", sort_choices)
        if srt is not True:
            kwargs["sort"] = srt
    if method is not None:
        kwargs["method"] = method
    reindex = tape.choice("gen.reindex", reindexes)
    if reindex is not None:
        kwargs["reindex"] = reindex
    engine = tape.choice("gen.engine", engines)
    if engine is not None:
        kwargs["engine"] = engine
    if func in ("quantile", "nanquantile"):
        kwargs["finalize_kwargs"] = {"q": tape.choice("gen.q", [0.5, 0.25, [0.25, 0.75]])}
    if func in VAR_FAMILY and tape.chance("gen.ddof", 0.3):
        kwargs["finalize_kwargs"] = {"ddof": 1}
    nblocks = len(chunks[-1])
    eg_container = tape.choice("gen.egcont", ["ndarray", "ndarray", "list", "index"]) if (expected_mode != "none" and kind != "str") else None
    by_chunks = None
    if by_dask and tape.chance("gen.bychunks", 0.3):
        by_chunks = [gen_chunks(tape, n, "gen.bychunks.c", max_blocks=max_blocks)]  # labels chunked differently from the values
    case = {
        "kind": "reduce",
        "array": enc_array(vals),
        "by": [enc_array(labels)],
        "chunks": chunks,
        "by_chunks": by_chunks,
        "eg_container": eg_container,
        "by_dask": bool(by_dask),
        "kwargs": enc_value(kwargs),
        "knobs": swarm_knobs(tape, nblocks, allow_faults=allow_faults),
        "meta": {"pattern": pattern, "label_kind": kind, "ngroups": int(ngroups), "block_missing": block_missing},
    }
    return case


def _extra_labels(kind, present, tape):
    if kind == "int":
        lo, hi = min(present), max(present)
        cands = [lo - 3, hi + 4, hi + 9]
        cands += [x for x in range(lo, hi) if x not in present][:2]
    elif kind == "float":
        cands = [-9.5, 99.5, 0.125]
    elif kind == "str":
        cands = ["zz", "A0"]
    else:
        return []
    k = tape.randint("gen.extra", 1, len(cands))
    return tape.shuffle("gen.extra.pick", cands)[:k]


# ---------------------------------------------------------------------------
# building
# ---------------------------------------------------------------------------


def decode_case(case):
    arr = dec_array(case["array"])
    bys = [dec_array(b) for b in case["by"]]
    kwargs = dec_value(case["kwargs"])
    for k in ("func", "method", "engine"):
        if isinstance(kwargs.get(k), str) and kwargs[k].startswith("s:"):
            kwargs[k] = kwargs[k][2:]
    if isinstance(kwargs.get("dtype"), str) and kwargs["dtype"].startswith("s:"):
        kwargs["dtype"] = kwargs["dtype"][2:]
    if "finalize_kwargs" in kwargs and "q" in kwargs["finalize_kwargs"]:
        pass
    cont = case.get("eg_container")
    if cont and len(bys) == 1 and isinstance(kwargs.get("expected_groups"), np.ndarray):
        # the caller may hand over the requested labels as a list, an ndarray or a pandas Index
        if cont == "list":
            kwargs["expected_groups"] = kwargs["expected_groups"].tolist()
        elif cont == "index":
            import pandas as pd

            kwargs["expected_groups"] = pd.Index(kwargs["expected_groups"])
    if len(bys) > 1:
        if isinstance(kwargs.get("expected_groups"), list):
            kwargs["expected_groups"] = tuple(kwargs["expected_groups"])
        if isinstance(kwargs.get("isbin"), list):
            kwargs["isbin"] = tuple(kwargs["isbin"])
    if isinstance(kwargs.get("func"), dict) and "custom" in kwargs["func"]:
        from .custom_aggs import make_custom

        kwargs["func"] = make_custom(kwargs["func"]["custom"])
    return arr, bys, kwargs


def chunked_inputs(case, arr, bys):
    import dask.array as da

    chunks = tuple(tuple(c) for c in case["chunks"])
    darr = da.from_array(arr, chunks=chunks)
    out_bys = []
    for b in bys:
        if case.get("by_dask"):
            bchunks = case.get("by_chunks")
            if bchunks is None:
                bchunks = tuple(
                    chunks[arr.ndim - b.ndim + ax] if b.shape[ax] != 1 else (1,) for ax in range(b.ndim)
                )
            else:
                bchunks = tuple(tuple(c) for c in bchunks)
            out_bys.append(da.from_array(b, chunks=bchunks))
        else:
            out_bys.append(b)
    return darr, out_bys


def eager_kwargs(kwargs):
    return {k: v for k, v in kwargs.items() if k not in ("method", "reindex")}


def nblocks_reduced(case) -> int:
    return len(case["chunks"][-1])


# ---------------------------------------------------------------------------
# shrinking
# ---------------------------------------------------------------------------


def simplify_knobs(case):
    k = case.get("knobs", {})
    if k.get("faults"):
        c = copy.deepcopy(case)
        c["knobs"]["faults"] = {}
        yield c
        for name in list(k["faults"]):
            c = copy.deepcopy(case)
            del c["knobs"]["faults"][name]
            yield c
    if k.get("thread_name", "MainThread") != "MainThread":
        c = copy.deepcopy(case)
        c["knobs"]["thread_name"] = "MainThread"
        yield c
    if k.get("optimize"):
        c = copy.deepcopy(case)
        c["knobs"]["optimize"] = False
        yield c
    if k.get("backend") == "A" and k.get("workers", 1) > 1:
        c = copy.deepcopy(case)
        c["knobs"]["workers"] = 1
        yield c


def _drop_element(case, i):
    """Remove position i along the last (reduced) axis."""
    c = copy.deepcopy(case)
    arr = dec_array(c["array"])
    if arr.shape[-1] <= 1:
        return None
    arr = np.delete(arr, i, axis=-1)
    c["array"] = enc_array(arr)
    newby = []
    for b in c["by"]:
        bb = dec_array(b)
        if bb.shape[-1] == 1:
            newby.append(b)
            continue
        newby.append(enc_array(np.delete(bb, i, axis=-1)))
    c["by"] = newby
    # adjust chunks of the last axis
    ch = list(c["chunks"][-1])
    pos = 0
    for j, s in enumerate(ch):
        if pos <= i < pos + s:
            ch[j] -= 1
            break
        pos += s
    ch = [s for s in ch if s > 0]
    if not ch:
        return None
    c["chunks"][-1] = ch
    if "by_chunks" in c and c["by_chunks"] is not None:
        c.pop("by_chunks")
    return c


def in_quantifier(case) -> bool:
    """Preconditions the generators establish and the shrinker must keep:
    argmax/argmin on NaN-free data, nanarg* on groups that are not entirely NaN,
    and at least one label present."""
    try:
        func = dec_value(case["kwargs"]).get("func")
    except Exception:  # noqa: BLE001
        return True
    arr = dec_array(case["array"])
    lab = dec_array(case["by"][0])
    flat = lab.reshape(-1)
    if flat.dtype.kind == "f" and flat.size and np.isnan(flat).all():
        return False
    if not isinstance(func, str) or arr.dtype.kind != "f":
        return True
    if func in ("argmax", "argmin"):
        return not np.isnan(arr).any()
    if func in ("nanargmax", "nanargmin") and lab.ndim == 1:
        rows = arr.reshape(-1, arr.shape[-1])
        for u in set(x for x in flat.tolist() if x == x):
            m = flat == u
            for row in rows:
                if np.isnan(row[m]).all():
                    return False
    return True


def shrink_reduce(case):
    """Yield structurally smaller reduce/scan cases that stay inside the quantifier."""
    for c in _shrink_reduce(case):
        if in_quantifier(c):
            yield c


def _shrink_reduce(case):
    arr = dec_array(case["array"])
    n = arr.shape[-1]
    # fewer blocks
    ch = case["chunks"][-1]
    if len(ch) > 1:
        c = copy.deepcopy(case)
        c["chunks"][-1] = [sum(ch)]
        yield c
        for i in range(len(ch) - 1):
            c = copy.deepcopy(case)
            cc = list(ch)
            cc[i : i + 2] = [cc[i] + cc[i + 1]]
            c["chunks"][-1] = cc
            yield c
    # drop leading dims
    if arr.ndim > 1 and all(dec_array(b).ndim < arr.ndim for b in case["by"]):
        c = copy.deepcopy(case)
        c["array"] = enc_array(arr[0])
        c["chunks"] = c["chunks"][1:]
        yield c
    # fewer elements (from the end first)
    for i in list(range(n - 1, -1, -1)):
        c = _drop_element(case, i)
        if c is not None:
            yield c
    # simpler values
    flat = arr.reshape(-1)
    if arr.dtype.kind in "fiu":
        for i in range(flat.size):
            v = flat[i]
            if v != v:
                continue
            for simple in (0, 1):
                if v != simple:
                    a2 = arr.copy()
                    a2.reshape(-1)[i] = simple
                    c = copy.deepcopy(case)
                    c["array"] = enc_array(a2)
                    yield c
                    break
    # default knobs
    k = case.get("knobs", {})
    if k.get("split_every") not in (None, 4):
        c = copy.deepcopy(case)
        c["knobs"]["split_every"] = 4
        yield c
    # drop optional kwargs
    kw = case["kwargs"]
    for name in ("reindex", "engine", "sort", "min_count", "dtype"):
        if name in kw:
            c = copy.deepcopy(case)
            del c["kwargs"][name]
            yield c


# ---------------------------------------------------------------------------
# calling flox
# ---------------------------------------------------------------------------


def call_chunked(case, split_every=None, func_override=None, kwargs_override=None):
    """Call flox on chunked inputs.  Returns (collections, assemble) where
    assemble(computed_tuple) -> (result, *groups) as numpy objects."""
    import dask
    import flox
    from dask.base import is_dask_collection

    arr, bys, kwargs = decode_case(case)
    if func_override is not None:
        kwargs["func"] = func_override
    if kwargs_override:
        kwargs.update(kwargs_override)
    darr, dbys = chunked_inputs(case, arr, bys)
    se = split_every if split_every is not None else case.get("knobs", {}).get("split_every")
    cfg = {"split_every": se} if se else {}
    with dask.config.set(**cfg):
        if case["kind"] == "scan":
            out = (flox.groupby_scan(darr, *dbys, **kwargs),)
        else:
            out = flox.groupby_reduce(darr, *dbys, **kwargs)
    colls = [o for o in out if is_dask_collection(o)]
    slots = [is_dask_collection(o) for o in out]

    def assemble(computed):
        it = iter(computed)
        return tuple(next(it) if s else o for s, o in zip(slots, out))

    return colls, assemble, out


def call_eager(case):
    import flox

    arr, bys, kwargs = decode_case(case)
    if case["kind"] == "scan":
        return (flox.groupby_scan(arr, *bys, **eager_kwargs(kwargs)),)
    return flox.groupby_reduce(arr, *bys, **eager_kwargs(kwargs))


def gen_scan_case(tape: Tape, *, max_n=30, max_groups=5, max_blocks=12, allow_faults=True,
                  dtypes=("f8", "f8", "f4", "i8", "i4", "b1"), funcs=SCANS, by_dask_p=0.0, dtype_kw_p=0.0, big_int_p=0.0) -> dict:
    func = tape.choice("gen.func", funcs)
    n = tape.randint("gen.n", 2, max_n)
    ngroups = tape.randint("gen.ngroups", 1, min(max_groups, n))
    codes, pattern = gen_codes(tape, n, ngroups)
    if func == "nancumsum":
        dtypes = tuple(d for d in dtypes if not d.startswith("M")) or ("f8",)
    kind = tape.choice("gen.labkind", ["int", "int", "float"])
    miss = tape.choice("gen.misslab", [0.0, 0.15]) if (kind == "float" and func != "nancumsum") else 0.0
    labels, uniq = labels_from_codes(tape, codes, ngroups, kind, missing_p=miss)
    dtype = tape.choice("gen.dtype", dtypes)
    dt = np.dtype(dtype)
    ndim = tape.randint("gen.ndim", 1, 2)
    lead = [tape.randint("gen.lead", 1, 3) for _ in range(ndim - 1)]
    shape = lead + [n]
    nan_p = tape.choice("gen.nanp", [0.0, 0.2, 0.5, 0.8]) if dt.kind == "f" else 0.0
    if dt.kind == "M":
        day = 86400 * 10**9
        iv = gen_values(tape, int(np.prod(shape)), dtype="i8", alphabet=[0, 1, 2, 3, 5]).reshape(shape) * day
        vals = iv.astype("int64").view("M8[ns]")
    else:
        alphabet = None
        if big_int_p and dt.kind in "iu" and func == "nancumsum" and tape.chance("gen.scan.bigint", big_int_p):
            # values whose running sums leave the width of the input type (NumPy's cumsum runs in the platform
            # integer) or, for 64-bit input, are not representable in float64; totals stay inside 64 bits for n <= 48
            bits = 8 * dt.itemsize
            if dt.kind == "u":
                alphabet = [0, 1, 2 ** bits - 1, 2 ** (bits - 1) + 1] if bits < 64 else [1, 2 ** 58 + 1, 2 ** 57 + 3, 0]
            else:
                alphabet = [1, 2 ** (bits - 1) - 1, -(2 ** (bits - 1)), -3] if bits < 64 else [1, 2 ** 57 + 1, -(2 ** 57 + 3), 2 ** 55 + 1]
        vals = gen_values(tape, int(np.prod(shape)), dtype=dtype, nan_p=nan_p, alphabet=alphabet).reshape(shape)
    chunks = [gen_chunks(tape, s, "gen.chunks.lead", max_blocks=3) for s in lead]
    chunks.append(gen_chunks(tape, n, max_blocks=max_blocks))
    by_dask = tape.chance("gen.bydask", by_dask_p)
    skw = {"func": func}
    if dtype_kw_p and dt.kind == "f" and tape.chance("gen.scan.dtypekw", dtype_kw_p):
        skw["dtype"] = tape.choice("gen.scan.dtype", ["f8", "f4"])  # the scan runs in the requested float type
    return {
        "kind": "scan",
        "array": enc_array(vals),
        "by": [enc_array(labels)],
        "chunks": chunks,
        "by_dask": bool(by_dask),
        "kwargs": enc_value(skw),
        "knobs": swarm_knobs(tape, len(chunks[-1]), allow_faults=allow_faults),
        "meta": {"pattern": pattern, "label_kind": kind, "ngroups": int(ngroups)},
    }


def exec_sim(colls, tape: Tape, knobs: dict, ctx, *, info=None, **extra):
    """Execute collections according to knobs on backend A or B; fold stats into ctx."""
    from .simexec import RunInfo, sim_compute

    info = info if info is not None else RunInfo()
    try:
        out = sim_compute(
            colls,
            tape=tape,
            backend=knobs.get("backend", "A"),
            workers=knobs.get("workers", 2),
            faults=knobs.get("faults") or {},
            optimize=knobs.get("optimize", False),
            thread_name=knobs.get("thread_name", "MainThread"),
            log=ctx.log,
            info=info,
            pickle_b=bool(knobs.get("faults", {}).get("ser_result")),
            **extra,
        )
    finally:
        if info.stats:
            ctx.absorb(info.stats)
    return out


def plain_kwargs(case) -> dict:
    """kwargs with the JSON string markers removed (for cells / probes / oracles)."""
    kw = dec_value(case["kwargs"])
    return kw


def gen_multi_by_case(tape: Tape, *, funcs=("sum", "nansum", "mean", "nanmean", "count", "max", "nanmin", "var", "prod", "any"),
                      allow_faults: bool = True, max_blocks: int = 6) -> dict:
    """Two groupers (categorical x categorical-or-binned), numpy or dask labels, 1-2-D values."""
    func = tape.choice("gen.func", funcs)
    n = tape.randint("gen.n", 3, 20)
    g1 = tape.randint("gen.g1", 1, 3)
    g2 = tape.randint("gen.g2", 1, 3)
    c1, _ = gen_codes(tape, n, g1, label="gen.lab1")
    c2, _ = gen_codes(tape, n, g2, label="gen.lab2")
    lab1 = (c1 * 2 + 1).astype("i8")
    binned = tape.chance("gen.binned", 0.4)
    if binned:
        # second grouper: values binned by edges (pandas.cut semantics, right-closed)
        lab2 = (c2.astype("f8") + tape.choice("gen.binoff", [0.25, 0.5, 1.0]))
        edges = np.arange(0, g2 + 1).astype("f8")
        if tape.chance("gen.binmiss", 0.3):
            lab2[tape.draw("gen.binmiss.pos", n)] = np.nan
    else:
        lab2 = (c2 + 10).astype("f8")
        if tape.chance("gen.lab2miss", 0.3):
            lab2[tape.draw("gen.lab2miss.pos", n)] = np.nan
    dtype = "b1" if func in BOOL else tape.choice("gen.dtype", ["f8", "f8", "i8", "f4"])
    dt = np.dtype(dtype)
    lead = [tape.randint("gen.lead", 1, 2)] if tape.chance("gen.ndim2", 0.3) else []
    shape = lead + [n]
    alphabet = (PROD_FLOAT if dt.kind == "f" else PROD_INT) if func in PROD_FAMILY else None
    vals = gen_values(tape, int(np.prod(shape)), dtype=dtype, nan_p=(tape.choice("gen.nanp", [0.0, 0.2]) if dt.kind == "f" else 0.0),
                      alphabet=alphabet).reshape(shape)
    chunks = [gen_chunks(tape, s, "gen.chunks.lead", max_blocks=2) for s in lead] + [gen_chunks(tape, n, max_blocks=max_blocks)]
    by_dask = tape.chance("gen.bydask", 0.35)
    kwargs: dict = {"func": func}
    exp1 = np.array(sorted(set(lab1.tolist())))
    if tape.chance("gen.exp1.extra", 0.3):
        exp1 = np.append(exp1, exp1.max() + 4)
    if binned:
        kwargs["expected_groups"] = [exp1, edges]
        kwargs["isbin"] = [False, True]
    else:
        # always request the labels explicitly: what an absent (label1, label2) combination of *unrequested*
        # labels holds is not specified (eager: dtype NA sentinel, chunked: the fill), see DESIGN 10
        exp2 = np.array(sorted(set(x for x in lab2.tolist() if x == x)) or [10.0])
        kwargs["expected_groups"] = [exp1, exp2]
    # with two groupers a (label1, label2) combination may always be absent: a fill_value is part of the contract
    kwargs["fill_value"] = False if func in BOOL else (0 if dt.kind in "iu" and func not in ("mean", "nanmean", "var") else
                                                        tape.choice("gen.fill", [math.nan, 0.0]))
    method = tape.choice("gen.method", [None, None, "map-reduce", "cohorts"])
    if by_dask and method == "cohorts":
        method = "map-reduce"
    if method is not None:
        kwargs["method"] = method
    case = {
        "kind": "reduce",
        "array": enc_array(vals),
        "by": [enc_array(lab1), enc_array(lab2)],
        "chunks": chunks,
        "by_dask": bool(by_dask),
        "kwargs": enc_value(kwargs),
        "knobs": swarm_knobs(tape, len(chunks[-1]), allow_faults=allow_faults),
        "meta": {"pattern": "multi-by" + ("-binned" if binned else ""), "label_kind": "multi", "ngroups": int(g1 * g2), "nby": 2},
    }
    return case


def gen_binned_case(tape: Tape, *, funcs=("sum", "nansum", "mean", "count", "max", "nanmin", "var", "nanfirst", "argmax"),
                    allow_faults: bool = True, max_blocks: int = 8) -> dict:
    """One grouper given as bin edges (pandas.cut semantics): values exactly on edges, outside all bins, NaN."""
    func = tape.choice("gen.func", funcs)
    n = tape.randint("gen.n", 3, 24)
    nb = tape.randint("gen.nbins", 1, 4)
    edges = [float(e) for e in range(nb + 1)]
    pool = edges + [e + 0.5 for e in edges[:-1]] + [-1.0, nb + 1.5, math.nan]
    lab = np.array([tape.choice("gen.binlab", pool) for _ in range(n)], dtype="f8")
    if np.isnan(lab).all():
        lab[0] = 0.5
    dtype = tape.choice("gen.dtype", ["f8", "f8", "i8", "f4"])
    dt = np.dtype(dtype)
    nan_p = tape.choice("gen.nanp", [0.0, 0.2]) if (dt.kind == "f" and func != "argmax") else 0.0
    lead = [tape.randint("gen.lead", 1, 2)] if tape.chance("gen.ndim2", 0.3) else []
    shape = lead + [n]
    vals = gen_values(tape, int(np.prod(shape)), dtype=dtype, nan_p=nan_p).reshape(shape)
    chunks = [gen_chunks(tape, s, "gen.chunks.lead", max_blocks=2) for s in lead] + [gen_chunks(tape, n, max_blocks=max_blocks)]
    if tape.chance("gen.interval", 0.45):
        # an IntervalIndex handed over directly (left- or right-closed) instead of edges + isbin
        kwargs = {"func": func, "expected_groups": {"__interval__": {"breaks": edges, "closed": tape.choice("gen.closed", ["left", "right"])}}}
    else:
        kwargs = {"func": func, "expected_groups": np.array(edges), "isbin": True}
    if func == "argmax":
        kwargs["fill_value"] = -1
    elif dt.kind in "iu" and func in ("sum", "nansum", "count", "max", "nanmin", "nanfirst"):
        kwargs["fill_value"] = tape.choice("gen.fill", [0, -7, math.nan])
    else:
        kwargs["fill_value"] = tape.choice("gen.fill", [math.nan, 0.0])
    method = tape.choice("gen.method", [None, None, "map-reduce", "cohorts"])
    by_dask = tape.chance("gen.bydask", 0.35)
    if by_dask and method == "cohorts":
        method = "map-reduce"
    if method is not None:
        kwargs["method"] = method
    reindex = tape.choice("gen.reindex", [None, None, True, False])
    if reindex is not None:
        kwargs["reindex"] = reindex
    return {
        "kind": "reduce",
        "array": enc_array(vals),
        "by": [enc_array(lab)],
        "chunks": chunks,
        "by_dask": bool(by_dask),
        "kwargs": enc_value(kwargs),
        "knobs": swarm_knobs(tape, len(chunks[-1]), allow_faults=allow_faults),
        "meta": {"pattern": "binned", "label_kind": "binned", "ngroups": nb},
    }
