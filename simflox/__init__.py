"""simflox: deterministic simulation with fault injection for flox task graphs.

Import `simflox.env` first (before numpy/numba/flox) in every entry point.
"""
