"""C02 — chunked results equal eager results for every strategy, reindex mode, chunking."""
from __future__ import annotations

import numpy as np

from ..cases import tree_depth
from ..cluster import TaskError, Violation
from ..oracle import results_diff, spy_plan
from ..redcase import (
    ALL_TREE_FUNCS,
    call_chunked,
    call_eager,
    decode_case,
    exec_sim,
    gen_reduce_case,
    nblocks_reduced,
    plain_kwargs,
    shrink_reduce,
    simplify_knobs,
)
from ..refmodel import present_labels
from ..runner import REFUSALS, Skip, classify_exception
from ..simexec import RunInfo
from ..tape import Tape

ID = "C02"
LEVEL = "exploration"
BUDGET = {"quick": 45, "thorough": 900}
RULE = (
    "One run = one generated call executed twice: eagerly on the in-memory data (reference execution, zero tasks) "
    "and chunked, with the graph run on the simulated cluster (backend A or B, swarm of faults, random split_every). "
    "Inputs: 1-3-D value arrays of float/int/uint/bool dtypes with NaN, labels int/float(with missing)/numpy or dask, "
    "every tree-capable reduction plus first/last/order statistics on blockwise-eligible layouts; "
    "method in {None, map-reduce, cohorts, blockwise}, reindex in {None, True, False}, every chunking incl. size-1 "
    "chunks and chunks lacking some group; expected_groups (+fill_value) none/exact/superset. Engine and min_count "
    "stay at defaults. Result values and returned labels must be equal (exact on the exact alphabet; rtol 1e-12 for "
    "mean, 1e-9 for var/std). Non-trivial iff >=2 blocks along the reduced axis. distinct_nontrivial = distinct "
    "(func, resolved method, resolved reindex, label kind, by kind, dtype kind, tree depth, #cohorts bucket) cells."
)
ASSUMPTIONS = [
    "a kernel that is wrong in the same way eagerly and per block is invisible to this oracle (C01 is not a simulation target)",
    "sampled, not exhaustive",
]
PROBES = ["tree_depth>=3", "sort_false_mapping", "resolved_cohorts", "resolved_blockwise", "resolved_mapreduce", "cohorts_multi",
          "by_dask_unknown_groups", "block_all_missing_labels", "blockwise_rechunk", "crash_recomputed_released_key"]


def gen(tape: Tape, tier: str) -> dict:
    if tape.chance("gen.kind.nd", 0.15):
        # labels of 1-3 dimensions chunked along several axes, partial-axis reductions (C19's cell generator)
        from . import c19
        from ..cases import dec_value, enc_value
        from ..redcase import swarm_knobs

        case = c19.gen(tape, tier)
        case["kind"] = "reduce"
        kw = dec_value(case["kwargs"])
        m = tape.choice("gen.nd.method", ["map-reduce", "cohorts", None, None])
        if m is not None:
            kw["method"] = m
        case["kwargs"] = enc_value(kw)
        case["knobs"] = swarm_knobs(tape, len(case["chunks"][-1]))
        case["meta"]["ngroups"] = 0
        return case
    if tape.chance("gen.kind.binned", 0.1):
        from ..redcase import gen_binned_case

        return gen_binned_case(tape)
    if tape.chance("gen.kind.multi", 0.12):
        from ..redcase import gen_multi_by_case

        return gen_multi_by_case(tape)
    return gen_reduce_case(
        tape,
        funcs=ALL_TREE_FUNCS + ["first", "last", "median", "nanmedian", "quantile", "nanquantile"],
        methods=("map-reduce", "cohorts", None, None, "blockwise"),
        reindexes=(None, None, True, False),
        dtypes=("f8", "f8", "f4", "i8", "i4", "u1", "i2", "b1"),
        label_kinds=("int", "int", "float", "float"),
        max_n=40 if tier == "thorough" else 30,
        max_ndim=3,
        by_dask_p=0.2,
        missing_label_p=0.2,
        sort_choices=(True, True, True, False),
    )


def _by_label(res):
    labs = np.asarray(res[1])
    if labs.ndim != 1 or np.asarray(res[0]).shape[-1:] != labs.shape:
        return res
    order = np.argsort(labs, kind="stable")
    return (np.asarray(res[0])[..., order], labs[order])


def run(case, tape: Tape, ctx):
    kw = plain_kwargs(case)
    func = kw["func"]
    nb = nblocks_reduced(case)
    try:
        ref = call_eager(case)
    except REFUSALS as e:
        raise Skip(f"eager-refused:{type(e).__name__}")
    except Exception as e:  # noqa: BLE001
        # no eager reference.  When the chunked call fails the same way while the graph is built the
        # two agree (e.g. no label present at all and no expected_groups: IndexError on both sides);
        # a violation only when the chunked path accepts what the eager path chokes on.
        _, bys_, _ = decode_case(case)
        if "expected_groups" not in kw and any(len(present_labels(b)) == 0 for b in bys_):
            # no valid label at all and none requested: there is no group to compare (the eager path
            # raises IndexError, dask labels yield one phantom NaN group) - outside the statement
            raise Skip("no-group-at-all")
        try:
            call_chunked(case)
        except Exception as e2:  # noqa: BLE001
            if type(e2) is type(e):
                raise Skip(f"both-raise:{type(e).__name__}")
        cls, msg, det = classify_exception(e)
        det["which"] = "eager"
        raise Violation(cls, "eager call fails where the chunked call does not: " + msg, **det)
    try:
        with spy_plan() as plan:
            colls, assemble, out = call_chunked(case)
    except REFUSALS as e:
        raise Skip(f"refused:{type(e).__name__}")
    except Exception as e:  # noqa: BLE001
        cls, msg, det = classify_exception(e)
        raise Violation(cls, msg, **det)
    info = RunInfo()
    try:
        res = assemble(exec_sim(colls, tape, case["knobs"], ctx, info=info))
    except TaskError as te:
        if isinstance(te.exc, REFUSALS) and not isinstance(te.exc, ValueError):
            raise Skip(f"refused-at-compute:{type(te.exc).__name__}")
        cls, msg, det = classify_exception(te)
        det.update(resolved_method=plan.get("method"))
        raise Violation(cls, msg, **det)
    se = case["knobs"].get("split_every") or 4
    depth = tree_depth(nb, se)
    ctx.nontrivial = nb >= 2
    ctx.cell(func, plan.get("method"), plan.get("reindex"), case["meta"]["label_kind"],
             "dask" if case["by_dask"] else "np", np.dtype(case["array"]["dtype"]).kind, min(depth, 4),
             min(plan.get("ncohorts", 0), 3))
    ctx.probe("tree_depth>=3", depth >= 3 and plan.get("method") != "blockwise")
    ctx.probe("resolved_cohorts", plan.get("method") == "cohorts")
    ctx.probe("resolved_blockwise", plan.get("method") == "blockwise")
    ctx.probe("resolved_mapreduce", plan.get("method") == "map-reduce")
    ctx.probe("cohorts_multi", plan.get("ncohorts", 0) > 1)
    ctx.probe("by_dask_unknown_groups", case["by_dask"] and "expected_groups" not in kw)
    if info.graph is not None:
        names = {k[0] if isinstance(k, tuple) else k for k in info.graph}
        ctx.probe("blockwise_rechunk", any(isinstance(n, str) and n.startswith("rechunk") for n in names))
    if kw.get("sort") is False and len(res) == 2 and len(ref) == 2:
        # label order is C16's subject: compare as a label -> value mapping
        res, ref = _by_label(res), _by_label(ref)
        ctx.probe("sort_false_mapping")
    d = results_diff(res, ref, func)
    if d:
        raise Violation(
            "value" if d.startswith("result") else "labels",
            f"chunked != eager ({plan.get('method')}, reindex={plan.get('reindex')}): {d}",
            resolved_method=plan.get("method"), resolved_reindex=plan.get("reindex"),
            resolved_engine=plan.get("engine"),
        )


shrink = shrink_reduce
simplify_knobs = simplify_knobs
