"""C19 — unsupported requests refused cleanly; auto plan works wherever map-reduce does."""
from __future__ import annotations

import copy
import itertools
import math

import numpy as np

from ..cases import dec_array, dec_value, enc_array, enc_value, gen_chunks, gen_codes, gen_values
from ..cluster import TaskError, Violation
from ..oracle import results_diff, spy_plan
from ..redcase import ALL_TREE_FUNCS, ARG, BOOL, ORDER, PROD_FAMILY, VAR_FAMILY
from ..runner import REFUSALS, Skip, classify_exception
from ..simexec import RunInfo, sim_compute
from ..tape import Tape

ID = "C19"
LEVEL = "exploration"
BUDGET = {"quick": 45, "thorough": 900}
RULE = (
    "One run = one argument cell sampled from reduction x engine x reindex x label kind (numpy/dask) x label ndim (1-3) "
    "x axis (all label dims or a subset, any sign) x expected_groups (absent / exact / superset / disjoint = no "
    "requested label present) x chunk layout (single block ... more blocks than split_every) x split_every, inside the "
    "documented contract (aligned shapes, a fill_value whenever a requested label may be absent). The cell is executed "
    "with method='map-reduce' (reference), method=None, method='cohorts', and method='blockwise' when its precondition "
    "holds (every group inside one block, or 1-D labels for the automatic rechunk); each call is followed by a "
    "fault-free compute on the simulated cluster, so call-time and compute-time failures are observed as separate "
    "simulator events. Outcomes: ok / refused (ValueError, NotImplementedError, ImportError) at call or compute / "
    "internal-error:<Type>. Violations: any internal error; method=None refused, failing or different where "
    "map-reduce is ok; cohorts/blockwise ok but different; any ok plan different from the eager result. Non-trivial iff "
    "a chunked argument has >=2 blocks. distinct_nontrivial = distinct (func, engine, reindex, by kind, by ndim, axis "
    "kind, expected mode, layout class, outcome vector) cells."
)
ASSUMPTIONS = ["seeded sampling of cells, not enumeration", "faults are off: they are irrelevant to this property",
               "exceptions of other types than the listed internal-error classes are reported in evidence, not alarmed"]
PROBES = ["labels_broadcast_axis", "numpy_array_dask_labels", "by_ndim_2", "by_ndim_3", "axis_subset", "no_requested_label_present", "single_block", "blocks>split_every",
          "by_dask", "blockwise_precondition_cell", "auto_resolved_cohorts", "auto_resolved_blockwise", "refused_at_compute",
          "refused_at_call", "engine_numbagg", "engine_flox"]

INTERNAL = (AssertionError, TypeError, IndexError, KeyError, AttributeError)


def gen(tape: Tape, tier: str) -> dict:
    func = tape.choice("gen.func", ALL_TREE_FUNCS + ["first", "last", "median", "nanmedian", "quantile"])
    by_ndim = tape.choice("gen.byndim", [1, 1, 1, 2, 2, 3])
    lead = tape.choice("gen.lead", [0, 0, 1])
    if by_ndim == 1:
        by_shape = [tape.randint("gen.n", 2, 16)]
    elif by_ndim == 2:
        by_shape = [tape.randint("gen.n0", 1, 3), tape.randint("gen.n1", 2, 6)]
    else:
        by_shape = [tape.randint("gen.n0", 1, 2), tape.randint("gen.n1", 1, 3), tape.randint("gen.n2", 2, 4)]
    shape = [tape.randint("gen.leadn", 1, 2)] * lead + by_shape
    total_by = int(np.prod(by_shape))
    ngroups = tape.randint("gen.ngroups", 1, min(5, total_by))
    layout = tape.choice("gen.layout", ["single", "random", "random", "ones-last", "blockwise-friendly"])
    chunks = []
    for ax, s in enumerate(shape):
        if layout == "single":
            chunks.append([s])
        elif layout == "ones-last" and ax == len(shape) - 1:
            chunks.append([1] * s)
        else:
            chunks.append(gen_chunks(tape, s, max_blocks=6 if ax == len(shape) - 1 else 3))
    if layout == "blockwise-friendly":
        # labels are a function of the block they are in: every group lives in exactly one block
        bchunks = chunks[lead:]
        edges = [np.cumsum([0] + c) for c in bchunks]
        grid = [len(c) for c in bchunks]
        codes = np.zeros(by_shape, dtype=np.int64)
        for bidx in itertools.product(*[range(g) for g in grid]):
            sl = tuple(slice(edges[a][b], edges[a][b + 1]) for a, b in enumerate(bidx))
            base = int(np.ravel_multi_index(bidx, grid)) * 2
            blk = codes[sl]
            blk[...] = base
            if blk.size > 1 and tape.chance("gen.bw.two", 0.5):
                blk.reshape(-1)[blk.size // 2 :] = base + 1
            codes[sl] = blk
        pattern = "per-block"
    else:
        codes, pattern = gen_codes(tape, total_by, ngroups)
        codes = codes.reshape(by_shape)
    labkind = tape.choice("gen.labkind", ["int", "int", "float"])
    if labkind == "int":
        labels = (codes * tape.choice("gen.step", [1, 2]) + tape.choice("gen.base", [0, 0, 3])).astype(np.int64)
    else:
        labels = codes.astype(np.float64) * 1.5 + 0.5
        if tape.chance("gen.miss", 0.3) and layout != "blockwise-friendly":
            flat = labels.reshape(-1)
            for i in range(flat.size):
                if tape.chance("gen.miss1", 0.2):
                    flat[i] = np.nan
            if np.isnan(flat).all():
                flat[0] = 0.5
    dtype = tape.choice("gen.dtype", ["f8", "f8", "i8", "f4", "i4"])
    if func in BOOL:
        dtype = "b1"
    dt = np.dtype(dtype)
    nan_p = tape.choice("gen.nanp", [0.0, 0.2]) if dt.kind == "f" and func not in ("argmax", "argmin") else 0.0
    alphabet = None
    if func in PROD_FAMILY:
        alphabet = [1.0, -1.0, 2.0, 0.5] if dt.kind == "f" else [1, -1, 2, 1]
    vals = gen_values(tape, int(np.prod(shape)), dtype=dtype, nan_p=nan_p, alphabet=alphabet).reshape(shape)
    if func in ("nanargmax", "nanargmin") and dt.kind == "f":
        vals = np.where(np.isnan(vals), 0.0, vals).astype(dt)  # keep groups from being all-NaN (quantifier of C01/C06)
    # axis
    axis_mode = "all"
    kwargs: dict = {"func": func}
    if by_ndim > 1 and tape.chance("gen.axis.subset", 0.4):
        k = tape.randint("gen.axis.k", 1, by_ndim - 1)
        axes = list(range(len(shape) - k, len(shape)))
        if tape.chance("gen.axis.neg", 0.5):
            axes = [a - len(shape) for a in axes]
        kwargs["axis"] = axes[0] if len(axes) == 1 and tape.chance("gen.axis.scalar", 0.5) else axes
        axis_mode = f"last{k}"
    elif tape.chance("gen.axis.explicit", 0.2):
        kwargs["axis"] = [a - len(shape) for a in range(len(shape) - by_ndim, len(shape))]
        axis_mode = "all-explicit"
    present = sorted(set(labels[~np.isnan(labels)].tolist())) if labkind == "float" else sorted(set(labels.reshape(-1).tolist()))
    emode = tape.choice("gen.expected", ["none", "none", "exact", "superset", "disjoint"])
    if axis_mode.startswith("last") and emode == "none" and tape.chance("gen.axis.needexp", 0.8):
        emode = "exact"
    if emode == "exact":
        kwargs["expected_groups"] = np.array(present)
    elif emode == "superset":
        kwargs["expected_groups"] = np.array(sorted(present + [max(present) + 7, min(present) - 4]))
    elif emode == "disjoint":
        kwargs["expected_groups"] = np.array([max(present) + 11, max(present) + 12]).astype(labels.dtype)
    if emode != "none":
        if func in ARG:
            kwargs["fill_value"] = -1
        elif func in BOOL:
            kwargs["fill_value"] = False
        elif dt.kind in "iu" and func not in ("mean", "nanmean", "median", "nanmedian", "quantile") + tuple(VAR_FAMILY):
            kwargs["fill_value"] = tape.choice("gen.fill", [0, -7])
        else:
            kwargs["fill_value"] = tape.choice("gen.fill", [math.nan, 0.0])
    reindex = tape.choice("gen.reindex", [None, None, True, False])
    if reindex is not None:
        kwargs["reindex"] = reindex
    engine = tape.choice("gen.engine", [None, None, "numpy", "flox", "numbagg"])
    if engine is not None:
        kwargs["engine"] = engine
    if func == "quantile":
        kwargs["finalize_kwargs"] = {"q": tape.choice("gen.q", [0.5, [0.25, 0.75]])}
    by_dask = tape.chance("gen.bydask", 0.25)
    # the value array itself may be in memory while only the labels are chunked
    arr_numpy = bool(by_dask and tape.chance("gen.arrnumpy", 0.3))
    # a leading label axis of size 1 that broadcasts against the value array
    if by_ndim >= 2 and layout != "blockwise-friendly" and tape.chance("gen.broadcast", 0.2) and labels.shape[0] > 1:
        labels = labels[:1]
        if labels.dtype.kind == "f" and np.isnan(labels).all():
            # no valid label left: an input without any group is outside the statement (eager raises IndexError too)
            labels = labels.copy()
            labels.reshape(-1)[0] = present[0]
    nb_last = len(chunks[-1])
    return {
        "kind": "cell",
        "array": enc_array(vals),
        "by": [enc_array(labels)],
        "chunks": chunks,
        "by_dask": bool(by_dask),
        "arr_numpy": arr_numpy,
        "kwargs": enc_value(kwargs),
        "knobs": {"split_every": tape.randint("swarm.split_every", 2, max(2, min(nb_last, 5))),
                  "workers": tape.randint("swarm.workers", 1, 3)},
        "meta": {"pattern": pattern, "layout": layout, "axis_mode": axis_mode, "expected_mode": emode, "label_kind": labkind,
                 "by_ndim": by_ndim, "lead": lead},
    }


def _blockwise_precondition(case, labels):
    """Documented precondition of method='blockwise'."""
    if labels.ndim == 1:
        return True  # automatic rechunk for 1-D labels ... only exact for sequential labels
    lead = case["meta"]["lead"]
    bchunks = case["chunks"][lead:]
    labels = np.broadcast_to(labels, tuple(sum(c) for c in bchunks))
    edges = [np.cumsum([0] + list(c)) for c in bchunks]
    grid = [len(c) for c in bchunks]
    where: dict = {}
    for bidx in itertools.product(*[range(g) for g in grid]):
        sl = tuple(slice(edges[a][b], edges[a][b + 1]) for a, b in enumerate(bidx))
        for l in np.unique(labels[sl]):
            if l == l:
                where.setdefault(float(l), set()).add(bidx)
    return all(len(v) == 1 for v in where.values())


def _sequential(labels):
    flat = labels.reshape(-1)
    seen = set()
    prev = object()
    for x in flat.tolist():
        if x != x:
            return False
        if x != prev:
            if x in seen:
                return False
            seen.add(x)
            prev = x
    return True


def _attempt(case, method, tape, ctx):
    """-> (outcome, value|None, info) with outcome in ok / refused@call / refused@compute / internal-error:T@when"""
    import dask
    import dask.array as da
    import flox
    from dask.base import is_dask_collection

    arr = dec_array(case["array"])
    labels = dec_array(case["by"][0])
    kwargs = dec_value(case["kwargs"])
    chunks = tuple(tuple(c) for c in case["chunks"])
    lead = case["meta"]["lead"]
    darr = arr if case.get("arr_numpy") else da.from_array(arr, chunks=chunks)
    bchunks = tuple(c if labels.shape[i] != 1 else (1,) for i, c in enumerate(chunks[lead:]))
    by = da.from_array(labels, chunks=bchunks) if case["by_dask"] else labels
    if method is not None:
        kwargs["method"] = method
    plan = {}
    try:
        with dask.config.set(split_every=case["knobs"]["split_every"]), spy_plan() as plan:
            out = flox.groupby_reduce(darr, by, **kwargs)
    except REFUSALS as e:
        ctx.log.add(f"CELL method={method} REFUSED@call {type(e).__name__}")
        return "refused@call", None, {"exc": f"{type(e).__name__}: {e}", "plan": dict(plan)}
    except Exception as e:  # noqa: BLE001
        cls, msg, det = classify_exception(e)
        ctx.log.add(f"CELL method={method} ERROR@call {type(e).__name__}")
        return f"error@call", None, {"cls": cls, "msg": msg, "det": det, "plan": dict(plan), "exc_obj_internal": isinstance(e, INTERNAL)}
    colls = [o for o in out if is_dask_collection(o)]
    slots = [is_dask_collection(o) for o in out]
    info = RunInfo()
    try:
        comp = sim_compute(colls, tape=tape, backend="A", workers=case["knobs"]["workers"], faults={}, log=ctx.log, info=info)
    except TaskError as te:
        if isinstance(te.exc, REFUSALS):
            ctx.log.add(f"CELL method={method} REFUSED@compute {type(te.exc).__name__}")
            return "refused@compute", None, {"exc": f"{type(te.exc).__name__}: {te.exc}", "plan": dict(plan)}
        cls, msg, det = classify_exception(te)
        return "error@compute", None, {"cls": cls, "msg": msg, "det": det, "plan": dict(plan), "exc_obj_internal": isinstance(te.exc, INTERNAL)}
    finally:
        if info.stats:
            ctx.absorb(info.stats)
    it = iter(comp)
    val = tuple(np.asarray(next(it)) if s else np.asarray(o) for s, o in zip(slots, out))
    ctx.log.add(f"CELL method={method} OK resolved={plan.get('method')}")
    return "ok", val, {"plan": dict(plan)}


def run(case, tape: Tape, ctx):
    import flox

    arr = dec_array(case["array"])
    labels = dec_array(case["by"][0])
    kw = dec_value(case["kwargs"])
    func = kw["func"]
    meta = case["meta"]
    nb = max(len(c) for c in case["chunks"])
    methods = ["map-reduce", None, "cohorts"]
    bw_ok = _blockwise_precondition(case, labels) and (labels.ndim > 1 or _sequential(labels))
    if bw_ok:
        methods.append("blockwise")
        ctx.probe("blockwise_precondition_cell")
    results = {}
    for m in methods:
        results[m] = _attempt(case, m, tape, ctx)
    outcomes = {m: r[0] for m, r in results.items()}
    ctx.nontrivial = nb >= 2
    ctx.cell(func, kw.get("engine"), kw.get("reindex"), "dask" if case["by_dask"] else "np", meta["by_ndim"], meta["axis_mode"],
             meta["expected_mode"], meta["layout"], "/".join(f"{outcomes[m][:9]}" for m in methods))
    ctx.probe("labels_broadcast_axis", labels.ndim >= 2 and labels.shape[0] == 1 and arr.shape[-labels.ndim] > 1)
    ctx.probe("numpy_array_dask_labels", bool(case.get("arr_numpy")))
    ctx.probe("by_ndim_2", meta["by_ndim"] == 2)
    ctx.probe("by_ndim_3", meta["by_ndim"] == 3)
    ctx.probe("axis_subset", meta["axis_mode"].startswith("last"))
    ctx.probe("no_requested_label_present", meta["expected_mode"] == "disjoint")
    ctx.probe("single_block", nb == 1)
    ctx.probe("blocks>split_every", len(case["chunks"][-1]) > case["knobs"]["split_every"])
    ctx.probe("by_dask", case["by_dask"])
    ctx.probe("engine_numbagg", kw.get("engine") == "numbagg")
    ctx.probe("engine_flox", kw.get("engine") == "flox")
    ctx.probe("refused_at_compute", any(o == "refused@compute" for o in outcomes.values()))
    ctx.probe("refused_at_call", any(o == "refused@call" for o in outcomes.values()))
    auto_plan = results[None][2].get("plan", {}).get("method")
    ctx.probe("auto_resolved_cohorts", auto_plan == "cohorts")
    ctx.probe("auto_resolved_blockwise", auto_plan == "blockwise")
    # 1. internal errors anywhere
    for m in methods:
        oc, val, inf = results[m]
        if oc.startswith("error@"):
            det = dict(inf["det"])
            det.update(method=m, resolved_method=inf.get("plan", {}).get("method"), when=oc.split("@")[1])
            if inf.get("exc_obj_internal"):
                raise Violation(inf["cls"], f"method={m!r}: {inf['msg']} ({oc})", **det)
            ctx.count("other-exception:" + det.get("exc_type", "?"))
            if m is None and outcomes["map-reduce"] == "ok":
                raise Violation("auto-vs-mapreduce", f"method=None fails ({inf['msg']}) where map-reduce succeeds", **det)
    ref_oc, ref_val, _ = results["map-reduce"]
    # 2. truth: eager (when eager itself accepts the call)
    eager = None
    try:
        ek = {k: v for k, v in kw.items() if k not in ("method", "reindex")}
        eager = tuple(np.asarray(x) for x in flox.groupby_reduce(arr, labels, **ek))
    except REFUSALS:
        eager = None
    except Exception as e:  # noqa: BLE001
        if isinstance(e, INTERNAL):
            cls, msg, det = classify_exception(e)
            det.update(method="eager")
            raise Violation(cls, f"eager call: {msg}", **det)
    for m in methods:
        oc, val, inf = results[m]
        if oc != "ok":
            continue
        if eager is not None:
            d = results_diff(val, eager, func)
            if d:
                raise Violation("wrong", f"method={m!r} (resolved {inf['plan'].get('method')}) returned a wrong answer: "
                                f"chunked != eager: {d}", method=m, resolved_method=inf["plan"].get("method"))
        if m != "map-reduce" and ref_oc == "ok":
            d = results_diff(val, ref_val, func)
            if d:
                raise Violation("wrong", f"method={m!r} (resolved {inf['plan'].get('method')}) differs from explicit "
                                f"map-reduce: {d}", method=m, resolved_method=inf["plan"].get("method"))
    # 3. auto plan works wherever map-reduce does
    if ref_oc == "ok" and outcomes[None] != "ok":
        inf = results[None][2]
        raise Violation("auto-vs-mapreduce", f"explicit map-reduce succeeds but method=None is {outcomes[None]}: "
                        f"{inf.get('exc') or inf.get('msg')}", resolved_method=inf.get("plan", {}).get("method"),
                        outcome=outcomes[None])


def shrink(case):
    arr = dec_array(case["array"])
    labels = dec_array(case["by"][0])
    lead = case["meta"]["lead"]
    # merge chunks along any axis
    for ax, ch in enumerate(case["chunks"]):
        if len(ch) > 1:
            c = copy.deepcopy(case)
            c["chunks"][ax] = [sum(ch)]
            yield c
            for i in range(len(ch) - 1):
                c = copy.deepcopy(case)
                cc = list(ch)
                cc[i : i + 2] = [cc[i] + cc[i + 1]]
                c["chunks"][ax] = cc
                yield c
    # drop leading batch dim
    if lead:
        c = copy.deepcopy(case)
        c["array"] = enc_array(arr[0])
        c["chunks"] = c["chunks"][1:]
        c["meta"]["lead"] = 0
        kw = dec_value(c["kwargs"])
        yield c
    # shrink along the last axis
    n = arr.shape[-1]
    if n > 1:
        for i in range(n - 1, -1, -1):
            c = copy.deepcopy(case)
            lab2 = np.delete(labels, i, axis=-1)
            if lab2.dtype.kind == "f" and np.isnan(lab2).all():
                continue  # an input without any group is outside the statement
            c["array"] = enc_array(np.delete(arr, i, axis=-1))
            c["by"] = [enc_array(lab2)]
            ch = list(case["chunks"][-1])
            pos = 0
            for j, s in enumerate(ch):
                if pos <= i < pos + s:
                    ch[j] -= 1
                    break
                pos += s
            ch = [s for s in ch if s > 0]
            if not ch:
                continue
            c["chunks"][-1] = ch
            yield c
    kw = case["kwargs"]
    for name in ("reindex", "engine"):
        if name in kw:
            c = copy.deepcopy(case)
            del c["kwargs"][name]
            yield c
    if case["by_dask"]:
        c = copy.deepcopy(case)
        c["by_dask"] = False
        yield c


def simplify_knobs(case):
    if case["knobs"].get("workers", 1) != 1:
        c = copy.deepcopy(case)
        c["knobs"]["workers"] = 1
        yield c
