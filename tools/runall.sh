#!/bin/bash
# tools/runall.sh [quick|thorough] [ids...] : run checks sequentially, print one line each
cd "$(dirname "$0")/.."
tier=${1:-quick}; shift
ids=${@:-C02 C03 C04 C05 C06 C09 C10 C11 C12 C13 C14 C16 C19}
for id in $ids; do
  t0=$(date +%s)
  out=$(./check $id --tier $tier 2>&1); rc=$?
  t1=$(date +%s)
  echo "$id rc=$rc $((t1-t0))s :: $(echo "$out" | grep -E "^$id: runs=" | head -1)"
  echo "$out" | grep -E "^(VIOLATION|HARNESS-ERROR|KNOWN-FINDING)" | cut -c1-300
done
