#!/venv/bin/python
"""Regression over the kept seeded changes: for every /verif/seeded/<id>/ rebuild the changed tree
(git archive of meta.applies_to_flox_commit + patch.diff, in a scratch dir, never /repo) and run the
checks listed in meta.caught_by; each must report a VIOLATION (exit 1).

usage: tools/seeded_regress.py [ids...]   env: SEED_BUDGET_S (default 45), VERIF_PROCS, ONLY_FIRST=1
"""
import json
import os
import shutil
import subprocess
import sys
import tempfile

VERIF = os.path.dirname(os.path.dirname(os.path.abspath(__file__)))
want = set(sys.argv[1:])
budget = os.environ.get("SEED_BUDGET_S", "45")
rows = []
for name in sorted(os.listdir(os.path.join(VERIF, "seeded"))):
    d = os.path.join(VERIF, "seeded", name)
    if want and name not in want and name.split("-")[0] not in want:
        continue
    meta = json.load(open(os.path.join(d, "meta.json")))
    tmp = tempfile.mkdtemp(prefix=f"simflox-seeded-{name[:12]}-")
    try:
        # prefer the current tree (later fixes included, so a catch is due to the change alone); fall back to
        # the commit the change was written against when the patch no longer applies
        for base in ("HEAD", meta["applies_to_flox_commit"]):
            shutil.rmtree(tmp, ignore_errors=True)
            os.makedirs(tmp)
            ar = subprocess.run(f"git -C /repo archive {base} | tar -x -C {tmp}", shell=True)
            p = subprocess.run(["patch", "-p1", "-s", "--no-backup-if-mismatch", "-F0", "-i", os.path.join(d, "patch.diff")], cwd=tmp, capture_output=True, text=True)
            if not ar.returncode and not p.returncode:
                break
        if os.path.exists("/repo/flox/_version.py"):
            shutil.copy("/repo/flox/_version.py", os.path.join(tmp, "flox"))
        if ar.returncode or p.returncode:
            rows.append((name, "PATCH-FAILED", ""))
            continue
        checks = meta["caught_by"][:1] if os.environ.get("ONLY_FIRST") else meta["caught_by"]
        for chk in checks:
            env = {**os.environ, "SIMFLOX_REPO": tmp, "SIMFLOX_EVIDENCE_DIR": os.path.join(tmp, "out"), "VERIF_BUDGET_S": budget,
                   "VERIF_DET_RATE": "0"}
            r = subprocess.run([os.path.join(VERIF, "check"), chk, "--tier", "quick"], capture_output=True, text=True, env=env, cwd=VERIF)
            mini = next((l for l in r.stdout.splitlines() if l.startswith("minimised")), "")
            rows.append((name, f"{chk}:{'CAUGHT' if r.returncode == 1 else 'rc=' + str(r.returncode)}@{base[:7]}", mini[:140]))
            print(rows[-1])
            sys.stdout.flush()
    finally:
        shutil.rmtree(tmp, ignore_errors=True)
bad = [r for r in rows if "CAUGHT" not in r[1]]
print(f"\n{len(rows) - len(bad)}/{len(rows)} (seeded change, check) pairs caught")
for r in bad:
    print("  NOT CAUGHT:", r)
sys.exit(1 if bad else 0)
