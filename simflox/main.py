"""Entry point: python -m simflox.main <id|selftest> [--tier t] [--replay f]"""
from __future__ import annotations

from . import env  # noqa: F401  (must precede numpy / numba / flox imports)

import argparse
import warnings
import importlib
import os
import sys


def main(argv=None) -> int:
    env.ensure_hashseed()
    warnings.filterwarnings("ignore")
    ap = argparse.ArgumentParser()
    ap.add_argument("target")
    ap.add_argument("--tier", default=os.environ.get("VERIF_TIER", "quick"), choices=["quick", "thorough"])
    ap.add_argument("--replay")
    ap.add_argument("--budget", type=float)
    ap.add_argument("--procs", type=int)
    a = ap.parse_args(argv)
    seed = int(os.environ.get("VERIF_SEED", "0") or 0)
    if a.target == "selftest":
        from .selftest import main as st

        return st(a.tier)
    if a.target.startswith("digests:"):
        from .selftest import digests_main

        return digests_main(a.target.split(":", 1)[1], a.tier)
    name = a.target.lower()
    from . import runner

    if a.replay:
        check = importlib.import_module(f"simflox.checks.{name}")
        return runner.replay_file(check, check.ID, a.replay, None)
    return runner.run_check(name, a.tier, seed, a.budget, a.procs)


if __name__ == "__main__":
    sys.exit(main())
