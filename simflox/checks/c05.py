"""C05 — one output slot per requested label; fill_value and min_count honoured exactly."""
from __future__ import annotations

import copy
import math

import numpy as np

from ..cluster import TaskError, Violation
from ..oracle import results_diff, spy_plan, tol_for
from ..redcase import (
    ALL_TREE_FUNCS,
    ARG,
    call_chunked,
    call_eager,
    decode_case,
    exec_sim,
    gen_reduce_case,
    nblocks_reduced,
    plain_kwargs,
    shrink_reduce,
    simplify_knobs,
)
from ..refmodel import AMBIGUOUS, count_valid, members, np_reduce
from ..runner import REFUSALS, Skip, classify_exception
from ..simexec import RunInfo
from ..tape import Tape

ID = "C05"
LEVEL = "exploration"
BUDGET = {"quick": 45, "thorough": 900}
RULE = (
    "One run = one call with expected_groups (superset / subset / disjoint / exact of the labels present, sorted or "
    "not), fill_value in {NaN, 0, -7, 123456, False} (restricted to values representable in the result dtype), "
    "min_count in {None, 0, 1, 2, > group size}, optionally a floating dtype=, any reduction, engine in {auto, numpy, flox, numbagg}, evaluated "
    "eagerly (zero-task configuration) and chunked under a random strategy/reindex/chunking on the simulated cluster "
    "with faults. Slot-wise reference model: a requested label that never occurs -> the user's fill verbatim; explicit "
    "min_count k>0 and fewer than k valid members -> fill; >= max(k,1) valid members -> NumPy's value; occurs with no "
    "valid member under an implicit min_count -> skipped and counted. Returned labels == requested (ascending when "
    "sort=True), exactly one slot per label, eager == chunked on every slot. Non-trivial iff some requested label is "
    "absent or below min_count AND some is present. distinct_nontrivial = distinct (func, expected mode, fill, "
    "min_count, engine, resolved method/reindex or 'eager', dtype kind) cells."
)
ASSUMPTIONS = ["sampled, not exhaustive", "ambiguous slots are skipped and counted, never guessed"]
PROBES = ["dtype_kw_with_fill", "absent_label_slot", "below_min_count_slot", "unrequested_label_dropped", "falsy_fill", "unsorted_expected",
          "disjoint_expected", "engine_numbagg", "resolved_cohorts", "resolved_blockwise"]

FILLS = [math.nan, math.nan, 0, 0.0, -7, 123456, False]


def gen(tape: Tape, tier: str) -> dict:
    case = gen_reduce_case(
        tape,
        funcs=ALL_TREE_FUNCS + ["first", "last"],
        methods=("map-reduce", "cohorts", None, None, "blockwise"),
        reindexes=(None, None, True, False),
        dtypes=("f8", "f8", "f4", "i8", "i4", "i2", "b1"),
        label_kinds=("int", "int", "float"),
        max_n=36 if tier == "thorough" else 24,
        max_groups=7 if tier == "thorough" else 5,
        max_ndim=2,
        by_dask_p=0.15,
        expected_modes=("superset", "superset", "subset", "subset", "disjoint", "exact"),
        engines=(None, None, "numpy", "flox", "numbagg"),
        missing_label_p=0.15,
        fill_choices=FILLS,
        min_counts=(None, None, 0, 1, 2, 40),
        sort_choices=(True, True, True, False),
        unsorted_expected_p=0.3,
    )
    # a requested floating dtype= together with the fill (each plan casts at a different stage)
    from ..cases import dec_value, enc_value
    from ..redcase import BOOL

    kw = dec_value(case["kwargs"])
    if kw["func"] not in ARG + BOOL + ["count"] and kw.get("engine") != "numbagg" and tape.chance("gen.dtypekw", 0.25):
        kw["dtype"] = tape.choice("gen.dtypekw.v", ["f4", "f8"])
        case["kwargs"] = enc_value(kw)
    return case


def _fill_matches(got, fill) -> bool:
    try:
        if isinstance(fill, float) and fill != fill:
            return bool(got != got) or (np.asarray(got).dtype.kind in "mM" and bool(np.isnat(got)))
        return bool(got == fill)
    except Exception:  # noqa: BLE001
        return False


def check_slots(label_for, which, result, groups, arr, by, kw, ctx):
    func = kw["func"]
    expected = np.asarray(kw["expected_groups"])
    fill = kw.get("fill_value")
    mc = kw.get("min_count")
    sort = kw.get("sort", True)
    want_labels = np.sort(expected) if sort else expected
    g = np.asarray(groups)
    if g.shape != want_labels.shape or not _labels_equal(g, want_labels):
        raise Violation("labels", f"{which}: returned labels {g.tolist()} != requested {want_labels.tolist()} (sort={sort})",
                        which=which)
    result = np.asarray(result)
    if result.shape != arr.shape[:-1] + (len(want_labels),):
        raise Violation("labels", f"{which}: result shape {result.shape}: expected one slot per requested label "
                        f"{arr.shape[:-1] + (len(want_labels),)}", which=which)
    rows = arr.reshape(-1, arr.shape[-1])
    rres = result.reshape(rows.shape[0], len(want_labels))
    ddof = (kw.get("finalize_kwargs") or {}).get("ddof", 0)
    rtol, atol = tol_for(func, result.dtype, arr.dtype)
    any_absent = any_present = False
    for si, lab in enumerate(want_labels.tolist()):
        for r in range(rows.shape[0]):
            pos, vals = members(rows[r], by, lab)
            got = rres[r, si]
            nvalid = count_valid(vals)
            if len(pos) == 0:
                any_absent = True
                ctx.probe("absent_label_slot")
                if fill is None:
                    ctx.skip_slot("absent-label-without-fill")
                    continue
                if not _fill_matches(got, fill):
                    raise Violation(
                        "fill", f"{which}: requested label {lab!r} never occurs but its slot holds {got!r} instead of "
                        f"fill_value={fill!r} (func={func}, min_count={mc})",
                        which=which, slot="absent", min_count=mc, fill=repr(fill))
                ctx.count("slots_checked")
                continue
            if mc is not None and mc > 0 and nvalid < mc:
                any_absent = True
                ctx.probe("below_min_count_slot")
                if not _fill_matches(got, fill):
                    raise Violation(
                        "fill", f"{which}: group {lab!r} has {nvalid} valid members < min_count={mc} but its slot holds "
                        f"{got!r} instead of fill_value={fill!r} (func={func})",
                        which=which, slot="mincount", min_count=mc, fill=repr(fill))
                ctx.count("slots_checked")
                continue
            if nvalid >= max(mc or 0, 1):
                want = np_reduce(func, vals, pos, ddof=ddof)
                if want is AMBIGUOUS:
                    ctx.skip_slot("ambiguous:" + func)
                    continue
                any_present = True
                w = np.asarray(want)
                gg = np.asarray(got)
                if w.dtype.kind == "f" or gg.dtype.kind == "f":
                    ok = bool(np.isclose(gg.astype("f8"), w.astype("f8"), rtol=rtol, atol=atol, equal_nan=True))
                else:
                    ok = bool(gg == w)
                if not ok:
                    raise Violation(
                        "value", f"{which}: {func} of group {lab!r} is {got!r}, NumPy gives {want!r} for members "
                        f"{vals.tolist()} (min_count={mc}, fill={fill!r})", which=which, slot="value")
                ctx.count("slots_checked")
            else:
                ctx.skip_slot("occurs-without-valid-member-implicit-min_count")
    return any_absent, any_present


def _labels_equal(a, b) -> bool:
    if a.dtype.kind == "f" or b.dtype.kind == "f":
        return bool(np.array_equal(a.astype("f8"), b.astype("f8"), equal_nan=True))
    return bool(np.array_equal(a, b))


def run(case, tape: Tape, ctx):
    kw = plain_kwargs(case)
    func = kw["func"]
    arr, bys, _ = decode_case(case)
    by = bys[0]
    nb = nblocks_reduced(case)
    # --- eager: the zero-task configuration --------------------------------
    try:
        eager = call_eager(case)
    except REFUSALS as e:
        raise Skip(f"eager-refused:{type(e).__name__}")
    except Exception as e:  # noqa: BLE001
        cls, msg, det = classify_exception(e)
        det["which"] = "eager"
        raise Violation(cls, msg, **det)
    a1, p1 = check_slots(None, "eager", eager[0], eager[1], arr, by, kw, ctx)
    # --- chunked -------------------------------------------------------------
    try:
        with spy_plan() as plan:
            colls, assemble, out = call_chunked(case)
    except REFUSALS as e:
        ctx.skip_slot("chunked-refused")
        ctx.nontrivial = a1 and p1
        ctx.cell(func, case["meta"].get("expected_mode"), repr(kw.get("fill_value")), kw.get("min_count"), kw.get("engine"), "eager", arr.dtype.kind)
        return
    except Exception as e:  # noqa: BLE001
        cls, msg, det = classify_exception(e)
        det["which"] = "chunked"
        raise Violation(cls, msg, **det)
    info = RunInfo()
    try:
        res = assemble(exec_sim(colls, tape, case["knobs"], ctx, info=info))
    except TaskError as te:
        cls, msg, det = classify_exception(te)
        det.update(which="chunked", resolved_method=plan.get("method"))
        raise Violation(cls, msg, **det)
    check_slots(None, f"chunked[{plan.get('method')},reindex={plan.get('reindex')}]", res[0], res[1], arr, by, kw, ctx)
    d = results_diff(res, eager, func)
    if d:
        raise Violation("value", f"eager and chunked ({plan.get('method')}, reindex={plan.get('reindex')}) disagree: {d}",
                        which="eager-vs-chunked", resolved_method=plan.get("method"), min_count=kw.get("min_count"))
    present = set(x for x in by.tolist() if x == x)
    exp = set(np.asarray(kw["expected_groups"]).tolist())
    ctx.nontrivial = a1 and p1
    ctx.cell(func, repr(kw.get("fill_value")), kw.get("min_count"), kw.get("engine"),
             plan.get("method"), plan.get("reindex"), arr.dtype.kind, int(bool(present - exp)))
    ctx.probe("unrequested_label_dropped", bool(present - exp))
    ctx.probe("dtype_kw_with_fill", "dtype" in kw)
    ctx.probe("falsy_fill", kw.get("fill_value") in (0, False) and not isinstance(kw.get("fill_value"), float) or kw.get("fill_value") == 0.0)
    ctx.probe("unsorted_expected", list(np.asarray(kw["expected_groups"]).tolist()) != sorted(np.asarray(kw["expected_groups"]).tolist()))
    ctx.probe("disjoint_expected", not (present & exp))
    ctx.probe("engine_numbagg", kw.get("engine") == "numbagg")
    ctx.probe("resolved_cohorts", plan.get("method") == "cohorts")
    ctx.probe("resolved_blockwise", plan.get("method") == "blockwise")


shrink = shrink_reduce
simplify_knobs = simplify_knobs
