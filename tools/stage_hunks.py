#!/usr/bin/env python3
"""stage_hunks.py <repo> <file> <hunk indices...>: stage selected hunks of a file's working-tree diff."""
import re
import subprocess
import sys

repo, path, idxs = sys.argv[1], sys.argv[2], [int(x) for x in sys.argv[3:]]
diff = subprocess.run(["git", "-C", repo, "diff", "-U3", "--", path], capture_output=True, text=True).stdout
head, *hunks = re.split(r"(?m)^(?=@@ )", diff)
if not idxs:
    for i, h in enumerate(hunks):
        print(f"--- hunk {i}\n{h}")
    sys.exit(0)
patch = head + "".join(hunks[i] for i in idxs)
p = subprocess.run(["git", "-C", repo, "apply", "--cached", "--recount", "-"], input=patch, text=True, capture_output=True)
print(p.stdout, p.stderr)
sys.exit(p.returncode)
