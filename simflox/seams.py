"""Seams taken from outside: simulated planner thread pool, simulated clock."""
from __future__ import annotations

import contextlib


class _SimFuture:
    def __init__(self, ex, fn, args, kwargs):
        self.ex, self.fn, self.args, self.kwargs = ex, fn, args, kwargs
        self.done = False
        self.value = None
        self.exc = None

    def _run(self):
        try:
            self.value = self.fn(*self.args, **self.kwargs)
        except BaseException as e:  # noqa: BLE001
            self.exc = e
        self.done = True

    def result(self, timeout=None):
        self.ex._drain_until(self)
        if self.exc is not None:
            raise self.exc
        return self.value


class SimExecutor:
    """Drop-in for concurrent.futures.ThreadPoolExecutor inside flox's planner:
    submitted jobs run one at a time, lazily, in an order chosen by the tape."""

    tape = None  # set by install()
    stats = None

    def __init__(self, *a, **k):
        self.pending: list[_SimFuture] = []

    def __enter__(self):
        return self

    def __exit__(self, *exc):
        while self.pending:
            self._run_one()
        return False

    def submit(self, fn, *args, **kwargs):
        f = _SimFuture(self, fn, args, kwargs)
        self.pending.append(f)
        type(self).stats["jobs"] += 1
        return f

    def _run_one(self):
        i = type(self).tape.draw("exec.job", len(self.pending)) if type(self).tape is not None else 0
        if i != 0:
            type(self).stats["reordered"] += 1
        f = self.pending.pop(i)
        f._run()

    def _drain_until(self, fut):
        while not fut.done:
            self._run_one()

    def shutdown(self, wait=True):
        while self.pending:
            self._run_one()


@contextlib.contextmanager
def simulated_planner_pool(tape):
    import flox.core as fc

    cls = type("SimExecutorBound", (SimExecutor,), {"tape": tape, "stats": {"jobs": 0, "reordered": 0}})
    orig = fc.ThreadPoolExecutor
    fc.ThreadPoolExecutor = cls
    try:
        yield cls.stats
    finally:
        fc.ThreadPoolExecutor = orig


class SimClock:
    """Stands in for the `time` module that cachey reads."""

    def __init__(self, tape=None, start: float = 1000.0):
        self.now = start
        self.tape = tape
        self.mode = "normal"
        self.reads = 0

    def time(self):
        self.reads += 1
        if self.mode == "frozen":
            return self.now
        if self.mode == "backward":
            self.now -= 0.5
            return self.now
        if self.mode == "jumpy":
            self.now += 1e6
            return self.now
        self.now += 0.001
        return self.now


@contextlib.contextmanager
def simulated_cache_clock(clock: SimClock):
    import cachey.cache as cc

    orig = cc.time
    cc.time = clock
    try:
        yield clock
    finally:
        cc.time = orig
