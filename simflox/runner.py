"""Seeded search driver: shards run indices over processes, collects coverage,
matches known findings, minimises and writes replay files and evidence.

Exit codes: 0 held / 1 VIOLATION / 2 HARNESS-ERROR.
"""
from __future__ import annotations

import concurrent.futures as cf
import faulthandler
import importlib
import json
import multiprocessing as mp
import os
import re
import signal
import sys
import time
import traceback

from .cluster import EventLog, TaskError, Violation
from .tape import Tape, derive_seed

VERIF = os.path.dirname(os.path.dirname(os.path.abspath(__file__)))
KNOWN_PATH = os.path.join(VERIF, "KNOWN_FINDINGS.jsonl")


class HarnessTimeout(Exception):
    pass


class Skip(Exception):
    """The generated case is outside the property's quantifier / was refused."""

    def __init__(self, reason: str):
        super().__init__(reason)
        self.reason = reason


class Ctx:
    """Per-run context handed to a check's run()."""

    def __init__(self, tier: str):
        self.tier = tier
        self.log = EventLog()
        self.probes: dict[str, int] = {}
        self.faults: dict[str, int] = {}
        self.cells: set = set()
        self.nontrivial = False
        self.skips: dict[str, int] = {}
        self.sim_time = 0
        self.executions = 0
        self.sub: dict[str, int] = {}

    def probe(self, name: str, n: int = 1):
        if n:
            self.probes[name] = self.probes.get(name, 0) + n

    def cell(self, *c):
        self.cells.add("|".join(str(x) for x in c))

    def count(self, name: str, n: int = 1):
        self.sub[name] = self.sub.get(name, 0) + n

    def skip_slot(self, reason: str, n: int = 1):
        self.skips[reason] = self.skips.get(reason, 0) + n

    def absorb(self, stats: dict):
        """Fold SimCluster / SimPool stats into fault and probe counters."""
        self.executions += 1
        for k in ("dup", "crash", "ser_task", "ser_result", "readonly_handed", "xfer", "spill"):
            if stats.get(k):
                self.faults[k] = self.faults.get(k, 0) + stats[k]
        if stats.get("completions"):
            self.faults["pool_reorder"] = self.faults.get("pool_reorder", 0) + stats["completions"]
        self.sim_time += stats.get("sim_time", 0)
        self.probe("crash_recomputed_released_key", stats.get("recomputed_released", 0))
        self.probe("dup_second_result_kept", stats.get("dup_kept_second", 0))
        self.probe("readonly_write_attempt_spurious", stats.get("readonly_spurious", 0))
        self.probe("inflight>=2", 1 if stats.get("max_inflight", 0) >= 2 else 0)


# ---------------------------------------------------------------------------
# known findings
# ---------------------------------------------------------------------------


def load_known():
    rows = []
    if os.path.exists(KNOWN_PATH):
        for line in open(KNOWN_PATH):
            line = line.strip()
            if line and not line.startswith("#"):
                rows.append(json.loads(line))
    return rows


def _get_path(d, path):
    cur = d
    for p in path.split("."):
        if isinstance(cur, dict) and p in cur:
            cur = cur[p]
        else:
            return None
    return cur


def _match_value(have, want) -> bool:
    if isinstance(want, dict):
        if "in" in want:
            return have in want["in"]
        if "not_in" in want:
            return have not in want["not_in"]
        if "re" in want:
            return have is not None and re.search(want["re"], str(have)) is not None
        if "present" in want:
            return (have is not None) == bool(want["present"])
    return have == want


def match_known(rows, prop: str, cls: str, message: str, case: dict, details: dict):
    for row in rows:
        if row.get("status") != "known":
            continue
        props = row.get("property")
        props = props if isinstance(props, list) else [props]
        if prop not in props:
            continue
        sig = row.get("signature", {})
        if "class" in sig and not _match_value(cls, sig["class"]):
            continue
        if "message_re" in sig and not re.search(sig["message_re"], message or ""):
            continue
        ok = True
        for path, want in sig.get("case", {}).items():
            if not _match_value(_get_path(case, path), want):
                ok = False
                break
        if not ok:
            continue
        for path, want in sig.get("details", {}).items():
            if not _match_value(_get_path(details, path), want):
                ok = False
                break
        if not ok:
            continue
        return row
    return None


# ---------------------------------------------------------------------------
# single run
# ---------------------------------------------------------------------------


def _alarm(signum, frame):
    raise HarnessTimeout("run exceeded the per-run wall limit")


def classify_exception(e: BaseException) -> tuple[str, str, dict]:
    """Map an exception escaping flox (call or task) to a verdict class."""
    inner = e.exc if isinstance(e, TaskError) else e
    tb = traceback.extract_tb(inner.__traceback__)
    fn = None
    for fr in reversed(tb):
        if "/flox/" in fr.filename.replace("\\", "/"):
            fn = fr.name
            break
    details = {
        "exc_type": type(inner).__name__,
        "exc_message": str(inner)[:300],
        "function": fn,
        "when": "compute" if isinstance(e, TaskError) else "call",
    }
    if isinstance(e, TaskError):
        details["task"] = re.sub(r"/\d+", "", str(e.key) if not isinstance(e.key, tuple) else str(e.key[0]))
    return f"internal-error:{type(inner).__name__}", f"{type(inner).__name__}: {inner}", details


REFUSALS = (ValueError, NotImplementedError, ImportError)


def execute_one(check, case: dict, tape: Tape, tier: str, limit_s: float = 120.0):
    """Run one case.  Returns (verdict|None, ctx).  verdict = dict(cls,message,details)."""
    ctx = Ctx(tier)
    old = signal.signal(signal.SIGALRM, _alarm)
    signal.setitimer(signal.ITIMER_REAL, limit_s)
    try:
        try:
            check.run(case, tape, ctx)
            return None, ctx
        except Skip as s:
            ctx.skip_slot("case:" + s.reason)
            return None, ctx
        except Violation as v:
            return {"cls": v.cls, "message": v.message, "details": _jsonable(v.details)}, ctx
    finally:
        signal.setitimer(signal.ITIMER_REAL, 0)
        signal.signal(signal.SIGALRM, old)


def _jsonable(x):
    try:
        json.dumps(x)
        return x
    except TypeError:
        if isinstance(x, dict):
            return {str(k): _jsonable(v) for k, v in x.items()}
        if isinstance(x, (list, tuple)):
            return [_jsonable(v) for v in x]
        return repr(x)


# ---------------------------------------------------------------------------
# worker
# ---------------------------------------------------------------------------


def _worker(args):
    (check_name, prop, verif_seed, tier, shard, nshards, deadline, max_runs, det_rate) = args
    faulthandler.enable()
    check = importlib.import_module(f"simflox.checks.{check_name}")
    known = load_known()
    agg = {
        "runs": 0,
        "nontrivial": 0,
        "cells": set(),
        "nt_cells": set(),
        "interleavings": set(),
        "probes": {},
        "faults": {},
        "skips": {},
        "sub": {},
        "sim_time": 0,
        "executions": 0,
        "samples": [],
        "known_hit": {},
        "violation": None,
        "harness_error": None,
        "det_reruns": 0,
        "first": None,
        "last": None,
        "fault_free_runs": 0,
        "faulted_runs": 0,
    }
    i = shard
    while time.time() < deadline and (max_runs is None or agg["runs"] < max_runs):
        run_seed = derive_seed(verif_seed, prop, i)
        try:
            gtape = Tape(derive_seed(run_seed, "gen"))
            case = check.gen(gtape, tier)
            stape = Tape(derive_seed(run_seed, "sched"))
            verdict, ctx = execute_one(check, case, stape, tier)
            if det_rate and (i % det_rate == 0) and verdict is None:
                # determinism self-check: replay the recorded tape, event digests must agree
                v2, ctx2 = execute_one(check, case, Tape(replay=stape.rec), tier)
                agg["det_reruns"] += 1
                if ctx2.log.digest() != ctx.log.digest() or (v2 is not None):
                    agg["harness_error"] = (
                        f"determinism mismatch at run index {i}: {ctx.log.digest()} vs {ctx2.log.digest()}"
                    )
                    _dump_nondeterminism(prop, i, case, stape, ctx, ctx2)
                    break
        except HarnessTimeout as e:
            agg["harness_error"] = f"run index {i}: {e}"
            break
        except Exception as e:  # noqa: BLE001
            agg["harness_error"] = f"run index {i}: {type(e).__name__}: {e}\n{traceback.format_exc()}"
            break
        agg["runs"] += 1
        agg["first"] = i if agg["first"] is None else agg["first"]
        agg["last"] = i
        agg["cells"] |= ctx.cells
        if ctx.nontrivial:
            agg["nontrivial"] += 1
            agg["nt_cells"] |= ctx.cells
        agg["interleavings"].add(ctx.log.digest())
        for src, dst in ((ctx.probes, "probes"), (ctx.faults, "faults"), (ctx.skips, "skips"), (ctx.sub, "sub")):
            for k, v in src.items():
                agg[dst][k] = agg[dst].get(k, 0) + v
        agg["sim_time"] += ctx.sim_time
        agg["executions"] += ctx.executions
        if any(v for k, v in ctx.faults.items() if k not in ("xfer", "pool_reorder")):
            agg["faulted_runs"] += 1
        else:
            agg["fault_free_runs"] += 1
        if len(agg["samples"]) < 2 and ctx.nontrivial and shard < 3:
            agg["samples"].append({"run_index": i, "case": case, "events": ctx.log.lines[:40]})
        if verdict is not None:
            row = match_known(known, prop, verdict["cls"], verdict["message"], case, verdict["details"])
            if row is not None:
                agg["known_hit"][row["id"]] = agg["known_hit"].get(row["id"], 0) + 1
            elif os.environ.get("VERIF_COLLECT"):
                # triage mode: keep going, remember one example per (class, message head)
                key = verdict["cls"] + " :: " + re.sub(r"[-+]?\d+(\.\d+)?", "#", verdict["message"])[:110]
                tri = agg.setdefault("triage", {})
                if key not in tri:
                    tri[key] = {"n": 0, "run_index": i, "case": case, "details": verdict["details"], "message": verdict["message"][:400]}
                tri[key]["n"] += 1
            else:
                agg["violation"] = {
                    "run_index": i,
                    "case": case,
                    "tape": stape.rec,
                    "verdict": verdict,
                    "events": ctx.log.lines[:400],
                    "event_digest": ctx.log.digest(),
                }
                break
        i += nshards
    for k in ("cells", "nt_cells", "interleavings"):
        agg[k] = sorted(agg[k])
    return agg


def _dump_nondeterminism(prop, i, case, stape, ctx, ctx2):
    try:
        path = os.path.join(replay_dir(), f"{prop}-nondeterminism-{i}.json")
        with open(path, "w") as f:
            la, lb = ctx.log.lines, ctx2.log.lines
            i = next((j for j, (x, y) in enumerate(zip(la, lb)) if x != y), min(len(la), len(lb)))
            json.dump({"case": case, "tape": stape.rec, "first_diff": i, "a": la[max(0, i - 10): i + 10],
                       "b": lb[max(0, i - 10): i + 10], "len": [len(la), len(lb)]}, f)
    except Exception:  # noqa: BLE001
        pass


# ---------------------------------------------------------------------------
# shrinking
# ---------------------------------------------------------------------------


def _fails(check, prop, known, case, tape_rec, cls, tier):
    """Does (case, tape) fail with the same verdict class and no known signature?"""
    try:
        if getattr(check, "PRISTINE_REPLAY", False):
            r = check.pristine_execute(case, tape_rec, tier)
            verdict = r["verdict"]
            ctx = _ReplayCtx(r["lines"], r["digest"])
            rec = r["rec"]
        else:
            t = Tape(replay=tape_rec)
            verdict, ctx = execute_one(check, case, t, tier, limit_s=60)
            rec = t.rec
    except Exception:  # noqa: BLE001
        return None
    if verdict is None or verdict["cls"] != cls:
        return None
    if match_known(known, prop, verdict["cls"], verdict["message"], case, verdict["details"]) is not None:
        return None
    return verdict, ctx, rec


class _ReplayCtx:
    """Event log of a run executed in another process."""

    class _L:
        def __init__(self, lines, dg):
            self.lines, self._d = lines, dg

        def digest(self):
            return self._d

    def __init__(self, lines, dg):
        self.log = self._L(lines, dg)


def shrink(check, prop, viol, tier, budget_s=120.0, max_tries=300):
    known = load_known()
    case, tape_rec, cls = viol["case"], viol["tape"], viol["verdict"]["cls"]
    t_end = time.time() + budget_s
    tries = 0
    best = _fails(check, prop, known, case, tape_rec, cls, tier)
    if best is None:
        return None  # does not reproduce
    verdict, ctx, tape_rec = best

    def attempt(c, tr):
        nonlocal tries
        tries += 1
        if tries > max_tries or time.time() > t_end:
            return None
        return _fails(check, prop, known, c, tr, cls, tier)

    # 1. drop all faults / simplest backend knobs
    simplifiers = getattr(check, "simplify_knobs", None)
    if simplifiers:
        progress = True
        while progress:
            progress = False
            for cand in simplifiers(case):
                r = attempt(cand, tape_rec)
                if r:
                    case = cand
                    progress = True
                    break
    # 2. shortest tape: everything after the prefix is zero (= canonical first choice, no fault)
    lo, hi = 0, len(tape_rec)
    while lo < hi:
        mid = (lo + hi) // 2
        r = attempt(case, tape_rec[:mid])
        if r:
            hi = mid
        else:
            lo = mid + 1
            if tries >= max_tries or time.time() > t_end:
                break
    if hi < len(tape_rec):
        r = attempt(case, tape_rec[:hi])
        if r:
            tape_rec = tape_rec[:hi]
    # 2b. zero individual entries of the remaining prefix (fault draws first)
    idxs = [i for i, e in enumerate(tape_rec) if e[2] != 0]
    idxs.sort(key=lambda i: (not str(tape_rec[i][0]).startswith("fault"), -i))
    for i in idxs[:60]:
        cand = [list(e) for e in tape_rec]
        cand[i][2] = 0
        r = attempt(case, cand)
        if r:
            tape_rec = cand
    # 3. structural shrinking, greedy to a fixpoint
    shr = getattr(check, "shrink", None)
    if shr:
        progress = True
        while progress and tries < max_tries and time.time() < t_end:
            progress = False
            for cand in shr(case):
                r = attempt(cand, tape_rec)
                if r is None and tape_rec:
                    r = attempt(cand, [])
                    if r:
                        tape_rec = []
                if r:
                    case = cand
                    progress = True
                    break
                if tries >= max_tries or time.time() > t_end:
                    break
    # final run to record events of the minimised case
    r = _fails(check, prop, known, case, tape_rec, cls, tier)
    if r is None:
        return None
    verdict, ctx, rec = r
    return {
        "case": case,
        "tape": tape_rec,
        "verdict": verdict,
        "events": ctx.log.lines[:400],
        "event_digest": ctx.log.digest(),
        "shrink_tries": tries,
    }


def _shrink_entry(args):
    check_name, prop, viol, tier = args
    check = importlib.import_module(f"simflox.checks.{check_name}")
    try:
        return shrink(check, prop, viol, tier)
    except Exception:  # noqa: BLE001
        return {"error": traceback.format_exc()}


# ---------------------------------------------------------------------------
# replay files
# ---------------------------------------------------------------------------


def versions():
    import dask
    import numpy
    import pandas

    out = {"python": sys.version.split()[0], "numpy": numpy.__version__, "dask": dask.__version__, "pandas": pandas.__version__}
    try:
        import subprocess

        out["flox_rev"] = subprocess.run(
            ["git", "-C", os.environ.get("SIMFLOX_REPO", "/repo"), "rev-parse", "HEAD"],
            capture_output=True,
            text=True,
            timeout=10,
        ).stdout.strip()
    except Exception:  # noqa: BLE001
        pass
    return out


def replay_dir():
    d = os.environ.get("SIMFLOX_REPLAY_DIR") or os.environ.get("SIMFLOX_EVIDENCE_DIR") or os.path.join(VERIF, "replays")
    os.makedirs(d, exist_ok=True)
    return d


def write_replay(prop, verif_seed, run_index, tier, v, minimised: bool):
    path = os.path.join(replay_dir(), f"{prop}-{verif_seed}-{run_index}.json")
    doc = {
        "property": prop,
        "verif_seed": verif_seed,
        "run_index": run_index,
        "tier": tier,
        "verdict_class": v["verdict"]["cls"],
        "message": v["verdict"]["message"],
        "details": v["verdict"]["details"],
        "case": v["case"],
        "tape": v["tape"],
        "events": v["events"],
        "event_digest": v["event_digest"],
        "minimised": minimised,
        "hashseed": os.environ.get("PYTHONHASHSEED"),
        "versions": versions(),
    }
    with open(path, "w") as f:
        json.dump(doc, f, indent=1)
    return path


def replay_file(check, prop, path, tier=None) -> int:
    doc = json.load(open(path))
    tier = tier or doc.get("tier", "quick")
    w = getattr(check, "warmup", None)
    if w:
        w()  # e.g. C14's pristine-process zygote
    if getattr(check, "PRISTINE_REPLAY", False):
        r = check.pristine_execute(doc["case"], doc["tape"], tier)
        verdict, ctx = r["verdict"], _ReplayCtx(r["lines"], r["digest"])
    else:
        verdict, ctx = execute_one(check, doc["case"], Tape(replay=doc["tape"]), tier)
    if verdict is None:
        print(f"replay of {path}: no violation (property held on this case)")
        return 0
    same = verdict["cls"] == doc["verdict_class"]
    print(f"replay of {path}: {verdict['cls']}: {verdict['message']}")
    print(f"  verdict class {'matches' if same else 'differs from'} the recorded one ({doc['verdict_class']})")
    print(f"  event digest {ctx.log.digest()} ({'matches' if ctx.log.digest() == doc['event_digest'] else 'differs from'} recorded {doc['event_digest']})")
    known = load_known()
    row = match_known(known, prop, verdict["cls"], verdict["message"], doc["case"], verdict["details"])
    if row is not None:
        print(row["line"])
        return 0
    print(f"VIOLATION property={prop} replay={path}")
    return 1


# ---------------------------------------------------------------------------
# main driver
# ---------------------------------------------------------------------------

COMPONENTS = {
    "real": [
        "flox (all of it, imported from /repo working tree)",
        "dask graph construction, HighLevelGraph materialisation, optimisation, multi-collection merge, finalisation",
        "dask Task/Alias/DataNode __call__",
        "dask.local.get_async state machine + dask.order (backend B)",
        "cloudpickle",
        "numpy / pandas / numpy_groupies / numbagg kernels (numba pinned to 1 thread)",
        "cachey.Cache logic",
    ],
    "stub": [
        "workers, worker memory, network transfer, placement, ordering, crash/recompute, release (backend A SimCluster)",
        "executor and completion queue (backend B SimPool)",
        "planner thread pool (SimExecutor)",
        "clock read by cachey (SimClock)",
    ],
    "absent": ["dask.distributed", "cubed", "sparse"],
}


def run_check(check_name: str, tier: str, verif_seed: int, budget_s: float | None = None, procs: int | None = None):
    check = importlib.import_module(f"simflox.checks.{check_name}")
    prop = check.ID
    t0 = time.time()
    if budget_s is None:
        budget_s = float(os.environ.get("VERIF_BUDGET_S", check.BUDGET.get(tier, 45 if tier == "quick" else 900)))
    procs = procs or int(os.environ.get("VERIF_PROCS", min(16, os.cpu_count() or 1)))
    max_runs = os.environ.get("VERIF_MAX_RUNS")
    max_runs = int(max_runs) if max_runs else None
    print(f"simflox {prop} tier={tier} VERIF_SEED={verif_seed} budget={budget_s:.0f}s procs={procs} PYTHONHASHSEED={os.environ.get('PYTHONHASHSEED')}")
    sys.stdout.flush()
    # warm JIT / imports in the parent so forked workers (and the zygote) inherit them
    warm = getattr(check, "warmup", None)
    try:
        from .zygote import preimport, warm_numbagg

        tw = time.time()
        preimport()
        warm_numbagg()
        print(f"  numbagg kernels JIT-warmed in the parent in {time.time() - tw:.1f}s (outside the budget)")
        sys.stdout.flush()
        if warm:
            warm()
        if True:
            wt = time.time()
            j = 0
            while time.time() - wt < 4 and j < 6:
                c = check.gen(Tape(derive_seed(verif_seed, prop, "warm", j)), tier)
                try:
                    execute_one(check, c, Tape(derive_seed("w", j)), tier)
                except Exception:  # noqa: BLE001
                    pass
                j += 1
    except Exception:  # noqa: BLE001
        traceback.print_exc()
    deadline = time.time() + budget_s
    det_rate = int(os.environ.get("VERIF_DET_RATE", 50))
    ctxmp = mp.get_context("fork")
    args = [
        (check_name, prop, verif_seed, tier, s, procs, deadline, (max_runs // procs + 1) if max_runs else None, det_rate)
        for s in range(procs)
    ]
    results = []
    harness_error = None
    with cf.ProcessPoolExecutor(max_workers=procs, mp_context=ctxmp) as ex:
        futs = [ex.submit(_worker, a) for a in args]
        hard = budget_s + 180
        try:
            for f in cf.as_completed(futs, timeout=hard):
                try:
                    results.append(f.result())
                except Exception as e:  # noqa: BLE001
                    harness_error = f"worker died: {type(e).__name__}: {e}"
        except cf.TimeoutError:
            harness_error = "worker pool exceeded the hard wall limit"
            for p in list(getattr(ex, "_processes", {}).values()):
                try:
                    p.kill()
                except Exception:  # noqa: BLE001
                    pass
    # merge
    tot = {
        "runs": 0, "nontrivial": 0, "cells": set(), "nt_cells": set(), "interleavings": set(), "probes": {},
        "faults": {}, "skips": {}, "sub": {}, "sim_time": 0, "executions": 0, "samples": [], "known_hit": {},
        "det_reruns": 0, "fault_free_runs": 0, "faulted_runs": 0,
    }
    violations = []
    first, last = None, None
    for r in results:
        for k in ("runs", "nontrivial", "sim_time", "executions", "det_reruns", "fault_free_runs", "faulted_runs"):
            tot[k] += r[k]
        for k in ("cells", "nt_cells", "interleavings"):
            tot[k] |= set(r[k])
        for k in ("probes", "faults", "skips", "sub", "known_hit"):
            for kk, v in r[k].items():
                tot[k][kk] = tot[k].get(kk, 0) + v
        tot["samples"].extend(r["samples"])
        if r["violation"]:
            violations.append(r["violation"])
        if r["harness_error"] and not harness_error:
            harness_error = r["harness_error"]
        if r["first"] is not None:
            first = r["first"] if first is None else min(first, r["first"])
            last = r["last"] if last is None else max(last, r["last"])
    if os.environ.get("VERIF_COLLECT"):
        tri = {}
        for r in results:
            for k, v in r.get("triage", {}).items():
                if k in tri:
                    tri[k]["n"] += v["n"]
                else:
                    tri[k] = v
        with open(os.path.join(replay_dir(), f"{prop}-triage.json"), "w") as f:
            json.dump(tri, f, indent=1)
        for k, v in sorted(tri.items(), key=lambda kv: -kv[1]["n"]):
            print(f"TRIAGE n={v['n']:5d} idx={v['run_index']} {k}")
    known = load_known()
    known_by_id = {row["id"]: row for row in known}
    for row in known:
        # one line per listed finding of this property; say so when this run did not happen to reach it
        props = row.get("property")
        props = props if isinstance(props, list) else [props]
        if row.get("status") != "known" or prop not in props:
            continue
        n = tot["known_hit"].get(row["id"], 0)
        print(row["line"] + (f" [hit {n}x in this run]" if n else " [listed; not reached by this run's samples]"))
    exit_code = 0
    replay_path = None
    if violations:
        violations.sort(key=lambda v: v["run_index"])
        v = violations[0]
        print(f"violation candidate at run index {v['run_index']}: {v['verdict']['cls']}: {v['verdict']['message'][:300]}")
        sys.stdout.flush()
        with cf.ProcessPoolExecutor(max_workers=1, mp_context=ctxmp) as ex:
            try:
                m = ex.submit(_shrink_entry, (check_name, prop, v, tier)).result(timeout=400)
            except Exception as e:  # noqa: BLE001
                m = {"error": f"{type(e).__name__}: {e}"}
        if m is None:
            harness_error = harness_error or (
                f"violation at run index {v['run_index']} did not reproduce on replay: {v['verdict']['cls']}: {v['verdict']['message'][:300]}"
            )
            replay_path = write_replay(prop, verif_seed, v["run_index"], tier, v, False)
            print(f"unreproduced candidate written to {replay_path}")
        elif "error" in m:
            print("shrinker failed, reporting the unminimised case:\n" + m["error"])
            replay_path = write_replay(prop, verif_seed, v["run_index"], tier, v, False)
            exit_code = 1
        else:
            replay_path = write_replay(prop, verif_seed, v["run_index"], tier, m, True)
            print(f"minimised in {m['shrink_tries']} tries: {m['verdict']['cls']}: {m['verdict']['message'][:500]}")
            exit_code = 1
        if exit_code == 1:
            # replay the file once in a fresh interpreter before reporting
            import subprocess

            rp = subprocess.run(
                [sys.executable, "-m", "simflox.main", prop, "--replay", replay_path],
                capture_output=True, text=True, cwd=VERIF, timeout=300,
                env={**os.environ, "PYTHONPATH": VERIF},
            )
            if f"VIOLATION property={prop}" not in rp.stdout:
                harness_error = harness_error or f"replay file {replay_path} did not reproduce in a fresh interpreter:\n{rp.stdout[-1500:]}\n{rp.stderr[-1500:]}"
                exit_code = 0
    wall = time.time() - t0
    if tot["runs"] == 0 and not harness_error:
        harness_error = "no run completed"
    if harness_error:
        exit_code = 2
    # probes stuck at zero (coverage warnings)
    expected_probes = getattr(check, "PROBES", [])
    zero = [p for p in expected_probes if not tot["probes"].get(p)]
    from .evidence import write_evidence

    ev_path = write_evidence(
        check, prop, tier, verif_seed, tot, wall, first, last, budget_s, procs,
        n_viol=1 if exit_code == 1 else 0, harness_error=harness_error, zero_probes=zero,
    )
    rate = tot["runs"] / wall * 3600 if wall > 0 else 0
    print(
        f"{prop}: runs={tot['runs']} nontrivial={tot['nontrivial']} distinct_cells={len(tot['nt_cells'])} "
        f"interleavings={len(tot['interleavings'])} executions={tot['executions']} runs/h={rate:.0f} wall={wall:.1f}s"
    )
    print(f"  faults fired: {json.dumps(tot['faults'], sort_keys=True)}")
    if tot["skips"]:
        print(f"  skipped/ambiguous: {json.dumps(tot['skips'], sort_keys=True)}")
    if zero and tier == "thorough":
        print(f"  COVERAGE-WARNING probes never hit: {zero}")
    print(f"  evidence: {ev_path}")
    if harness_error:
        print(f"HARNESS-ERROR {harness_error}")
    elif exit_code == 1:
        print(f"VIOLATION property={prop} replay={replay_path}")
    else:
        print(f"{prop}: held on everything explored")
    return exit_code
