"""C06 — position-sensitive reductions respect global positions across chunk boundaries."""
from __future__ import annotations

import numpy as np

from ..cases import tree_depth
from ..cluster import TaskError, Violation
from ..oracle import spy_plan
from ..redcase import (
    ARG,
    call_chunked,
    decode_case,
    exec_sim,
    gen_reduce_case,
    nblocks_reduced,
    plain_kwargs,
    shrink_reduce,
    simplify_knobs,
)
from ..refmodel import AMBIGUOUS, count_valid, members, np_reduce
from ..runner import REFUSALS, Skip, classify_exception
from ..simexec import RunInfo
from ..tape import Tape

ID = "C06"
LEVEL = "exploration"
BUDGET = {"quick": 45, "thorough": 900}
RULE = (
    "One run = one chunked call of argmax/argmin/nanargmax/nanargmin/nanfirst/nanlast (map-reduce, cohorts, auto) or "
    "first/last (blockwise-eligible layouts) on tie-rich data (alphabet {0,1,2}, NaN for the nan* variants; float and "
    "integer dtypes - the latter force the grouped combine for first/last), interleaved groups, chunkings from one "
    "chunk to all size-1 chunks, split_every from 2 to #blocks, executed on the simulated cluster under a seeded "
    "schedule with faults. Oracle: np.argmax/argmin on the group's members mapped to whole-array indices (first "
    "occurrence), positional first/last; arg* only on NaN-free groups, nanarg*/nanfirst/nanlast only on groups with a "
    "valid member (other slots skipped and counted). Non-trivial iff >=2 blocks along the reduced axis and some group "
    "has members in >=2 blocks. distinct_nontrivial = distinct (func, resolved method, dtype kind, tree depth, "
    "#blocks bucket, ties-across-blocks flag, #cohorts bucket) cells."
)
ASSUMPTIONS = ["sampled, not exhaustive", "task bodies atomic"]
PROBES = ["tie_across_blocks", "tree_depth>=3", "grouped_combine", "resolved_cohorts", "cohorts_multi", "all_size1_chunks",
          "single_chunk", "block_all_nan_for_group"]


def gen(tape: Tape, tier: str) -> dict:
    return gen_reduce_case(
        tape,
        funcs=ARG + ARG + ["nanfirst", "nanlast", "nanfirst", "nanlast", "first", "last"],
        methods=("map-reduce", "cohorts", None),
        reindexes=(None, None, False),
        dtypes=("f8", "f8", "i8", "i4", "f4", "b1", "u1"),
        label_kinds=("int", "int", "float"),
        nan_p_choices=(0.0, 0.2, 0.5),
        max_n=36 if tier == "thorough" else 24,
        max_groups=6 if tier == "thorough" else 4,
        max_ndim=2,
        by_dask_p=0.1,
        expected_modes=("none", "none", "exact"),
        missing_label_p=0.15,
        value_alphabet=[0, 1, 2, 2, 1, -1],
        chunk_styles=["one", "ones", "ones", "random", "random", "even"],
        patterns=["random", "periodic", "interleave2", "runs", "localized"],
    )


def run(case, tape: Tape, ctx):
    kw = plain_kwargs(case)
    func = kw["func"]
    nb = nblocks_reduced(case)
    arr, bys, _ = decode_case(case)
    by = bys[0]
    try:
        with spy_plan() as plan:
            colls, assemble, out = call_chunked(case)
    except REFUSALS as e:
        raise Skip(f"refused:{type(e).__name__}")
    except Exception as e:  # noqa: BLE001
        cls, msg, det = classify_exception(e)
        raise Violation(cls, msg, **det)
    info = RunInfo()
    try:
        res = assemble(exec_sim(colls, tape, case["knobs"], ctx, info=info))
    except TaskError as te:
        cls, msg, det = classify_exception(te)
        det.update(resolved_method=plan.get("method"))
        raise Violation(cls, msg, **det)
    result, groups = np.asarray(res[0]), np.asarray(res[1])
    se = case["knobs"].get("split_every") or 4
    depth = tree_depth(nb, se)
    chunks = case["chunks"][-1]
    edges = np.cumsum([0] + list(chunks))
    blk_of = np.searchsorted(edges, np.arange(arr.shape[-1]), side="right") - 1
    flat = arr.reshape(-1, arr.shape[-1])
    if result.shape != arr.shape[:-1] + (len(groups),):
        raise Violation("value", f"result shape {result.shape} does not match {arr.shape[:-1]} + ({len(groups)},)")
    rflat = result.reshape(flat.shape[0], len(groups))
    if False:
        raise Violation("value", f"result shape {result.shape} does not match {arr.shape[:-1]} + ({len(groups)},)")
    tie_across = False
    spans = False
    allnan_block = False
    for gi, g in enumerate(groups.tolist() if groups.dtype.kind != "M" else groups):
        for r in range(flat.shape[0]):
            pos, vals = members(flat[r], by, g)
            if len(pos) == 0:
                ctx.skip_slot("absent-label")
                continue
            bl = blk_of[pos]
            if len(set(bl.tolist())) >= 2:
                spans = True
            if vals.dtype.kind == "f":
                for b in set(bl.tolist()):
                    if np.isnan(vals[bl == b]).all():
                        allnan_block = True
            want = np_reduce(func, vals, pos)
            if "fill_value" in kw and count_valid(vals) == 0:
                # implicit min_count=1 when a fill is requested: such a slot is C05's business
                want = AMBIGUOUS
            if want is AMBIGUOUS:
                ctx.skip_slot("ambiguous:" + func)
                continue
            if func in ARG:
                ext = vals[pos.tolist().index(want)]
                same = pos[vals == ext] if vals.dtype.kind != "f" else pos[np.nan_to_num(vals, nan=np.inf if "min" in func else -np.inf) == ext]
                if len(set(blk_of[same].tolist())) >= 2:
                    tie_across = True
            got = rflat[r, gi]
            ok = bool(got == want) or bool(want != want and got != got)
            if not ok:
                raise Violation(
                    "value",
                    f"{func} of group {g!r} (batch row {r}): got {got!r}, NumPy on the whole array gives {want!r}; "
                    f"members at positions {pos.tolist()} = {vals.tolist()}, chunks {chunks}, "
                    f"plan {plan.get('method')}, split_every {se}",
                    resolved_method=plan.get("method"), group=repr(g),
                )
            ctx.count("slots_checked")
    ctx.nontrivial = nb >= 2 and spans
    ctx.cell(func, plan.get("method"), arr.dtype.kind, min(depth, 4), min(nb, 6), int(tie_across), min(plan.get("ncohorts", 0), 3))
    ctx.probe("tie_across_blocks", tie_across)
    ctx.probe("tree_depth>=3", depth >= 3 and plan.get("method") != "blockwise")
    ctx.probe("grouped_combine", func in ARG or arr.dtype.kind != "f")
    ctx.probe("resolved_cohorts", plan.get("method") == "cohorts")
    ctx.probe("cohorts_multi", plan.get("ncohorts", 0) > 1)
    ctx.probe("all_size1_chunks", nb >= 2 and all(c == 1 for c in chunks))
    ctx.probe("single_chunk", nb == 1)
    ctx.probe("block_all_nan_for_group", allnan_block)


shrink = shrink_reduce
simplify_knobs = simplify_knobs
