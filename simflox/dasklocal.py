"""Backend B: dask's own ``dask.local`` scheduler state machine on a simulated
executor.  ``get_async`` runs for real (ready stack, dask.order, release
logic, exception path); the executor and the completion queue are stubs that
let the tape decide which in-flight submission completes next.
"""
from __future__ import annotations

import cloudpickle
import dask.local as dlocal

from .canon import keystr, sortkey
from .cluster import EventLog, TaskError
from .digest import digest
from .tape import Tape


class _Fut:
    __slots__ = ("fn", "args", "cbs", "_res", "done", "keys")

    def __init__(self, fn, args):
        self.fn = fn
        self.args = args
        self.cbs = []
        self._res = None
        self.done = False
        self.keys = [a[0] for a in args]

    def add_done_callback(self, cb):
        self.cbs.append(cb)

    def result(self):
        return self._res


class SimPool:
    def __init__(self, tape: Tape, log: EventLog, pickle: bool):
        self.tape = tape
        self.log = log
        self.inflight: list[_Fut] = []
        self.pickle = pickle
        self.order: list[str] = []
        self.stats = {"tasks_run": 0, "max_inflight": 0, "completions": 0}

    def submit(self, fn, args):
        f = _Fut(fn, args)
        self.inflight.append(f)
        self.stats["max_inflight"] = max(self.stats["max_inflight"], len(self.inflight))
        return f

    def queue_get(self, q):
        # choose which in-flight submission completes next
        self.inflight.sort(key=lambda f: sortkey(f.keys[0]))
        i = self.tape.draw("pool.complete", len(self.inflight))
        f = self.inflight.pop(i)
        f._res = f.fn(f.args)
        f.done = True
        self.stats["completions"] += 1
        for key, res_info, failed in f._res:
            self.stats["tasks_run"] += 1
            self.order.append(keystr(key))
            self.log.add(f"B COMPLETE {keystr(key)} {'FAILED' if failed else ''}")
        for cb in f.cbs:
            cb(f)
        return q.get()


def run_dask_local(g: dict, keys, tape: Tape, *, num_workers: int = 2, pickle: bool = False, log=None):
    """Run canonical graph g on dask.local.get_async with a simulated pool."""
    log = log or EventLog()
    pool = SimPool(tape, log, pickle)
    dumps = cloudpickle.dumps if pickle else dlocal.identity
    loads = cloudpickle.loads if pickle else dlocal.identity
    saved = dlocal.queue_get
    dlocal.queue_get = pool.queue_get
    failed: dict = {}

    def pack_exception(e, dumps_):
        failed["exc"] = e
        try:
            return dumps_((e, None))
        except Exception:  # noqa: BLE001
            return dumps_((RuntimeError(f"{type(e).__name__}: {e}"), None))

    def raise_exception(exc, tb):
        raise exc

    try:
        try:
            res = dlocal.get_async(
                pool.submit,
                num_workers,
                g,
                keys,
                dumps=dumps,
                loads=loads,
                pack_exception=pack_exception,
                raise_exception=raise_exception,
                rerun_exceptions_locally=False,
            )
        except Exception as e:  # noqa: BLE001
            if failed.get("exc") is not None:
                raise TaskError(pool.order[-1] if pool.order else "?", failed["exc"]) from e
            raise
    finally:
        dlocal.queue_get = saved
    log.add(f"B DONE {digest(res)}")
    return res, pool
