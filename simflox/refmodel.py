"""Reference model: label -> ordered member list -> NumPy.  No flox import.

Consulted only on slots where the property statement is unambiguous;
AMBIGUOUS is returned (and counted by the caller) otherwise, never guessed.
"""
from __future__ import annotations

import math
import warnings

import numpy as np

AMBIGUOUS = object()


def is_missing_label(x) -> bool:
    if x is None:
        return True
    if isinstance(x, (float, np.floating)):
        return bool(np.isnan(x))
    if isinstance(x, (np.datetime64, np.timedelta64)):
        return bool(np.isnat(x))
    return False


def members(values_1d: np.ndarray, labels_1d: np.ndarray, label):
    """Positions and values of the members of `label`, in positional order."""
    lab = np.asarray(labels_1d)
    if lab.dtype.kind == "O":
        mask = np.array([(not is_missing_label(x)) and x == label for x in lab.tolist()], dtype=bool)
    elif lab.dtype.kind in "mM":
        mask = lab == np.asarray(label).astype(lab.dtype)
    else:
        mask = lab == label
    pos = np.flatnonzero(mask)
    return pos, np.asarray(values_1d)[pos]


def present_labels(labels: np.ndarray) -> list:
    flat = np.asarray(labels).reshape(-1)
    out = []
    seen = set()
    for x in flat.tolist() if flat.dtype.kind == "O" else flat:
        if is_missing_label(x):
            continue
        key = x.item() if isinstance(x, np.generic) and flat.dtype.kind not in "mM" else x
        if key not in seen:
            seen.add(key)
            out.append(x)
    return out


def _isnan(v):
    v = np.asarray(v)
    if v.dtype.kind == "f":
        return np.isnan(v)
    if v.dtype.kind in "mM":
        return np.isnat(v)
    return np.zeros(v.shape, dtype=bool)


def np_reduce(func: str, vals: np.ndarray, pos: np.ndarray, *, ddof: int = 0):
    """NumPy's answer for one group (members in positional order), or AMBIGUOUS.

    `pos` are whole-array positions along the reduced axis (for arg reductions).
    An empty member list is AMBIGUOUS here: the caller decides (fill_value).
    """
    v = np.asarray(vals)
    n = v.size
    if n == 0:
        return AMBIGUOUS
    nan = _isnan(v)
    with warnings.catch_warnings(), np.errstate(all="ignore"):
        warnings.simplefilter("ignore")
        if func == "count":
            return int((~nan).sum())
        if func in ("sum", "prod", "mean", "var", "std", "max", "min"):
            f = getattr(np, func)
            if func in ("var", "std"):
                if n - ddof <= 0:
                    return math.nan
                return f(v.astype("f8") if v.dtype.kind != "f" else v, ddof=ddof)
            return f(v)
        if func in ("nansum", "nanprod"):
            return getattr(np, func)(v)
        if func in ("nanmean", "nanvar", "nanstd", "nanmax", "nanmin"):
            if nan.all():
                return AMBIGUOUS  # all-NaN group under an implicit min_count: statement is silent
            f = getattr(np, func)
            if func in ("nanvar", "nanstd"):
                if (~nan).sum() - ddof <= 0:
                    return math.nan
                return f(v.astype("f8") if v.dtype.kind != "f" else v, ddof=ddof)
            return f(v)
        if func in ("argmax", "argmin"):
            if nan.any():
                return AMBIGUOUS
            return int(pos[getattr(np, func)(v)])
        if func in ("nanargmax", "nanargmin"):
            if nan.all():
                return AMBIGUOUS
            if nan.any():
                # NumPy substitutes -inf/+inf for NaN first: when the group's true extreme IS that
                # infinity NumPy may point at a NaN position; conventions legitimately differ there
                valid = v[~nan]
                if (func == "nanargmin" and valid.min() == np.inf) or (func == "nanargmax" and valid.max() == -np.inf):
                    return AMBIGUOUS
            return int(pos[getattr(np, func)(v)])
        if func == "first":
            return v[0]
        if func == "last":
            return v[-1]
        if func == "nanfirst":
            ok = np.flatnonzero(~nan)
            return v[ok[0]] if ok.size else AMBIGUOUS
        if func == "nanlast":
            ok = np.flatnonzero(~nan)
            return v[ok[-1]] if ok.size else AMBIGUOUS
        if func == "all":
            return bool(np.all(v))
        if func == "any":
            return bool(np.any(v))
        if func in ("median", "nanmedian"):
            if func == "nanmedian" and nan.all():
                return math.nan
            return getattr(np, func)(v.astype("f8") if v.dtype.kind != "f" else v)
    raise KeyError(func)


def count_valid(vals) -> int:
    return int((~_isnan(np.asarray(vals))).sum())


# ---------------------------------------------------------------------------
# scans
# ---------------------------------------------------------------------------


def scan_1d(func: str, values: np.ndarray, labels: np.ndarray) -> np.ndarray:
    """Per-group sequential scan along a 1-D array.  Positions whose label is
    missing: for ffill/bfill the value is returned unchanged (nothing to fill from)."""
    v = np.asarray(values)
    lab = np.asarray(labels)
    if func == "nancumsum":
        if v.dtype.kind == "i":
            odt = np.result_type(v.dtype, np.int_)
        elif v.dtype.kind == "u":
            odt = np.result_type(v.dtype, np.uint)
        elif v.dtype.kind == "b":
            odt = np.dtype(np.int_)
        else:
            odt = v.dtype
        out = np.zeros(v.shape, dtype=odt)
    else:
        out = v.copy()
    for g in present_labels(lab):
        pos, m = members(v, lab, g)
        if func == "nancumsum":
            out[pos] = np.nancumsum(m.astype(out.dtype) if m.dtype.kind != "f" else m)
        elif func in ("ffill", "bfill"):
            mm = m.copy()
            if mm.dtype.kind == "f":
                rng = range(len(mm)) if func == "ffill" else range(len(mm) - 1, -1, -1)
                last = None
                for i in rng:
                    if np.isnan(mm[i]):
                        if last is not None:
                            mm[i] = last
                    else:
                        last = mm[i]
            out[pos] = mm
        else:
            raise KeyError(func)
    return out
