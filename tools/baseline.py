#!/venv/bin/python
"""Run flox's pinned test suite (guard off) and compare with BASELINE.json's stable_pass set.

usage: tools/baseline.py [repo_dir] [-n workers]
Exit 0 iff every stable_pass test passed.
"""
import json
import os
import subprocess
import sys
import tempfile
import xml.etree.ElementTree as ET

repo = sys.argv[1] if len(sys.argv) > 1 and not sys.argv[1].startswith("-") else "/repo"
n = "14"
if "-n" in sys.argv:
    n = sys.argv[sys.argv.index("-n") + 1]
base = json.load(open("/root/.vp/BASELINE.json"))
want = set(base["stable_pass"])
with tempfile.TemporaryDirectory() as td:
    out = os.path.join(td, "junit.xml")
    cmd = ["/venv/bin/python", "-m", "pytest", "-q", "-p", "no:cacheprovider", "--timeout=900",
           "--continue-on-collection-errors", f"--junitxml={out}", "-n", n]
    env = {k: v for k, v in os.environ.items() if k not in ("FLOX_VERIF",)}
    # avoid 16 workers x 16 BLAS/OpenMP/numba threads of oversubscription (does not change outcomes)
    env.setdefault("OMP_NUM_THREADS", "1"); env.setdefault("OPENBLAS_NUM_THREADS", "1"); env.setdefault("NUMBA_NUM_THREADS", "2")
    p = subprocess.run(cmd, cwd=repo, env=env, capture_output=True, text=True)
    print(p.stdout[-600:])
    passed = set()
    for tc in ET.parse(out).getroot().iter("testcase"):
        if not list(tc):
            passed.add(f"{tc.get('classname')}::{tc.get('name')}")
        elif all(ch.tag in ("system-out", "system-err", "properties") for ch in tc):
            passed.add(f"{tc.get('classname')}::{tc.get('name')}")
missing = sorted(want - passed)
print(f"stable_pass={len(want)} passed_now={len(passed)} missing={len(missing)}")
for m in missing[:40]:
    print("  NOT PASSING:", m)
sys.exit(1 if missing else 0)
