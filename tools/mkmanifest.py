#!/venv/bin/python
"""Regenerate MANIFEST.json from the table below (kept in one place so it stays valid)."""
import importlib
import json
import os
import sys

VERIF = os.path.dirname(os.path.dirname(os.path.abspath(__file__)))
sys.path.insert(0, VERIF)

NA = {
    "C01": "Eager groupby_reduce is a pure function of its arguments computed by one vectorised kernel call: no graph, scheduler, shared state, clock or fault for a schedule to act on (engines' numba threads are compiled code outside any seam, pinned to 1). Input-space law -> not a simulation target (DESIGN 6/C01).",
    "C07": "Tuple-key and pandas.cut semantics are decided inside _factorize_single/_ravel_factorized, identical at graph-construction time and inside a block task; no schedule, fault or history separates a wrong bin edge from a right one (DESIGN 6/C07).",
    "C08": "Slice/stack law about shapes and offsets of one call, a pure function of the input; its chunked clause is exercised by C02 (nD arrays, batch dims) and C09 (batch isolation of closures) (DESIGN 6/C08).",
    "C15": "Differential test of the xarray wrapper against xarray's native groupby over generated objects; the wrapper adds no graph structure, state or schedule of its own (Dataset co-compute is C14's clause) (DESIGN 6/C15).",
    "C17": "The new chunk tuple is arithmetic on (labels, chunks); the rechunk itself is dask's. Pure function of the input; memoisation/history is covered by C14, blockwise reliance by C02 (DESIGN 6/C17).",
    "C18": "Grouped quantiles are one kernel evaluated identically eagerly and per block: input-space law; the 'refuse unless blockwise' clause is a cell family of C19 (DESIGN 6/C18).",
    "C20": "Infinity handling, accumulation width and variance stability are properties of per-block numeric kernels and dtype selection, functions of the input alone; eager-vs-chunked var/std is C02 under tolerance (DESIGN 6/C20).",
}

TECH = {
    "C02": "deterministic simulation: chunked graph run on seeded simulated cluster (plan/chunking knobs swarmed, faults on) vs eager reference execution",
    "C03": "deterministic simulation: seeded schedules + faults on simulated cluster and real dask.local state machine vs sync baseline; all split_every tree shapes",
    "C04": "deterministic simulation: partitions of group members over <=3 simulated blocks (absent / NaN-only blocks), faulted execution, NumPy oracle on unsplit members",
    "C05": "deterministic simulation: eager + every plan on the simulated cluster vs slot-wise reference model (fill_value / min_count)",
    "C06": "deterministic simulation: position-sensitive reductions under seeded schedules, all tree depths, ties/NaN on chunk boundaries vs NumPy global index oracle",
    "C09": "deterministic simulation: planner under simulated thread pool; per-output-chunk closure histories; base-3 provenance conservation under duplicate/crash/cull faults",
    "C10": "deterministic simulation: scans on the simulated cluster (all prefix-tree shapes, faults) vs sequential per-group reference model",
    "C11": "deterministic simulation: every computed block checked against announced meta at the scheduler seam; cross-plan dtype/shape equality",
    "C12": "deterministic simulation: scheduler trap + poisoned chunks during API calls; unknown-label graphs on the simulated cluster vs eager map",
    "C13": "deterministic simulation with per-graph fault enumeration: every task double-executed, cloudpickled, input-digested; crash point enumerated per task",
    "C14": "deterministic simulation: seeded call histories with cache/clock faults vs pristine forked process; merged graphs co-scheduled on the simulated cluster",
    "C16": "deterministic simulation: all plans on the simulated cluster, sort x expected_groups x label dtype, hash seed varied; label->value map oracle",
    "C19": "deterministic simulation: seeded sampling of argument cells, call-time vs compute-time failure observed as simulator events; auto plan vs map-reduce",
}

LEVEL_TEXT = {
    "exploration": "Seeded search over generated inputs, plan knobs, schedules and fault sequences on the simflox simulator; a clean batch is evidence, not proof. Every failure is minimised and replayable from its file.",
    "fault_enumeration": "Per sampled graph every task is double-executed, pickled and digest-monitored, and the crash point is enumerated task by task (complete per graph in the thorough tier for graphs of <=64 tasks); graphs themselves are sampled.",
}

CLAIMED = sys.argv[1:] if len(sys.argv) > 1 else None


def main():
    ids = [f"C{i:02d}" for i in range(1, 21)]
    built = []
    for i in ids:
        if os.path.exists(os.path.join(VERIF, "simflox", "checks", i.lower() + ".py")):
            built.append(i)
    checks = []
    na = []
    for i in ids:
        if i in built:
            mod = importlib.import_module(f"simflox.checks.{i.lower()}")
            checks.append({
                "property_id": i,
                "quick_cmd": f"./check {i} --tier quick",
                "thorough_cmd": f"./check {i} --tier thorough",
                "evidence_file": f"evidence/{i}.json",
                "replay_cmd_template": f"./check {i} --replay {{path}}",
                "engine": "simflox",
                "level_claimed": {"category": mod.LEVEL, "text": LEVEL_TEXT[mod.LEVEL], "design_ref": f"DESIGN.md 6/{i}"},
                "level_note": "Trusted base: the simflox simulator (SimCluster/SimPool), its digest/deep-equality code, the reference models in simflox/refmodel.py, NumPy as value oracle, dask's Task objects and graph front half, cloudpickle. Task bodies are atomic (interleaving at task granularity); numba pinned to one thread; dask.distributed/cubed/sparse absent.",
                "technique": TECH[i],
            })
        elif i in NA:
            na.append({"property_id": i, "reason": NA[i]})
        else:
            na.append({"property_id": i, "reason": "claimed in DESIGN.md but its check is not built yet in this commit; no verdict is offered for it"})
    doc = {
        "version": 1,
        "setup_cmd": "./check selftest --tier quick",
        "hooks": {
            "guard": "FLOX_VERIF",
            "enable": "none needed - every seam is taken from outside (dask scheduler callable, dask.local.queue_get, module attributes flox.core.ThreadPoolExecutor and cachey.cache.time, dask.config); flox is imported from /repo's working tree",
            "baseline_off_cmd": "cd /repo && /venv/bin/python -m pytest -ra -q -p no:cacheprovider --timeout=900 --continue-on-collection-errors",
            "source_commits": [],
            "add_only": True,
        },
        "engines": [{
            "name": "simflox",
            "path": "simflox/",
            "serves_properties": built,
            "kind_free_text": "deterministic simulator for dask task graphs: choice tape (one seed), SimCluster (workers, memory, transfers, crash/recompute, duplicate execution, cloudpickle, read-only buffers), real dask.local state machine on a simulated pool, simulated planner thread pool and clock, canonical key names, delta-debugging shrinker, replay files",
        }],
        "checks": checks,
        "not_applicable": na,
        "notes": "All checks honour VERIF_SEED, VERIF_TIER, VERIF_BUDGET_S, VERIF_PROCS. Exit 0 held / 1 VIOLATION / 2 HARNESS-ERROR. Known findings: KNOWN_FINDINGS.jsonl.",
    }
    with open(os.path.join(VERIF, "MANIFEST.json"), "w") as f:
        json.dump(doc, f, indent=1)
    print("claimed:", built, "NA:", [x["property_id"] for x in na])


main()
