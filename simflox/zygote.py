"""Pristine-process oracle for C14: a zygote forked before flox was ever called
serves 'execute this one op first, in a fresh process state' requests by
forking a grandchild per request.
"""
from __future__ import annotations

import atexit
import os
import pickle
import shutil
import signal
import socket
import struct
import tempfile
import time
import traceback


def _send(sock, obj):
    data = pickle.dumps(obj, protocol=pickle.HIGHEST_PROTOCOL)
    sock.sendall(struct.pack("!I", len(data)) + data)


def _recv(sock):
    hdr = b""
    while len(hdr) < 4:
        c = sock.recv(4 - len(hdr))
        if not c:
            raise EOFError
        hdr += c
    (n,) = struct.unpack("!I", hdr)
    buf = b""
    while len(buf) < n:
        c = sock.recv(min(65536, n - len(buf)))
        if not c:
            raise EOFError
        buf += c
    return pickle.loads(buf)


_WARMED = False


def warm_numbagg(full: bool = True):
    """JIT-compile numbagg's grouped kernels directly (never through flox), so that
    forked workers and the pristine zygote inherit them instead of compiling each."""
    global _WARMED
    if _WARMED:
        return
    _WARMED = True
    import numpy as np

    try:
        import numbagg.grouped as g
    except Exception:  # noqa: BLE001
        return
    lab = np.array([0, 1, 0, 1], dtype=np.int64)
    names = ["nansum", "nanmean", "nanprod", "nansum_of_squares", "nanfirst", "nanlast", "nanmax", "nanmin", "nancount",
             "nanvar", "nanstd"]
    common = ["nansum", "nanmean", "nanmax", "nanmin", "nancount"]
    for dt, ns in (("f8", names), ("i8", names), ("f4", common if full else []), ("i4", common if full else [])):
        a = np.arange(4, dtype=dt)
        for n in ns:
            try:
                getattr(g, "group_" + n)(a, lab, axis=-1, num_labels=2)
            except Exception:  # noqa: BLE001
                pass
    b = np.array([True, False, True, True])
    for n in ("nanany", "nanall"):
        try:
            getattr(g, "group_" + n)(b, lab, axis=-1, num_labels=2)
        except Exception:  # noqa: BLE001
            pass


def preimport():
    """Import (not call) everything a first flox call would import lazily."""
    import dask.array  # noqa: F401
    import dask.array.reductions  # noqa: F401
    import flox  # noqa: F401
    import flox.xarray  # noqa: F401
    import numpy_groupies  # noqa: F401
    import pandas  # noqa: F401
    import xarray  # noqa: F401


CURRENT = None  # the Zygote serving this process tree (set in the parent and inside the zygote itself)


class Zygote:
    def __init__(self, handler_module: str, handler_name: str):
        self.dir = tempfile.mkdtemp(prefix="simflox-zygote-")
        self.path = os.path.join(self.dir, "sock")
        self.handler = (handler_module, handler_name)
        self.pid = None

    def start(self):
        global CURRENT
        ppid = os.getpid()
        pid = os.fork()
        if pid:
            self.pid = pid
            for _ in range(600):
                if os.path.exists(self.path + ".ready"):
                    break
                time.sleep(0.05)
            atexit.register(self.stop)
            CURRENT = self
            return self
        # ---- zygote process ----
        try:
            CURRENT = self
            signal.signal(signal.SIGINT, signal.SIG_IGN)
            warm_numbagg()
            preimport()
            srv = socket.socket(socket.AF_UNIX, socket.SOCK_STREAM)
            srv.bind(self.path)
            srv.listen(64)
            srv.settimeout(1.0)
            open(self.path + ".ready", "w").close()
            import importlib

            mod = importlib.import_module(self.handler[0])
            fn = getattr(mod, self.handler[1])
            while True:
                try:
                    while True:
                        p, _ = os.waitpid(-1, os.WNOHANG)
                        if p == 0:
                            break
                except ChildProcessError:
                    pass
                if os.getppid() != ppid:
                    break
                try:
                    conn, _ = srv.accept()
                except socket.timeout:
                    continue
                cpid = os.fork()
                if cpid == 0:
                    try:
                        srv.close()
                        req = _recv(conn)
                        if req == "shutdown":
                            _send(conn, "bye")
                            os._exit(0)
                        try:
                            res = ("ok", fn(req))
                        except BaseException as e:  # noqa: BLE001
                            res = ("exc", type(e).__name__, str(e)[:500], traceback.format_exc()[-1500:])
                        _send(conn, res)
                    finally:
                        os._exit(0)
                conn.close()
        finally:
            os._exit(0)

    def request(self, payload, timeout=120):
        s = socket.socket(socket.AF_UNIX, socket.SOCK_STREAM)
        s.settimeout(timeout)
        s.connect(self.path)
        try:
            _send(s, payload)
            return _recv(s)
        finally:
            s.close()

    def stop(self):
        if self.pid:
            try:
                os.kill(self.pid, signal.SIGTERM)
                os.waitpid(self.pid, 0)
            except Exception:  # noqa: BLE001
                pass
            self.pid = None
        shutil.rmtree(self.dir, ignore_errors=True)
