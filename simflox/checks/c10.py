"""C10 — grouped scans equal per-group sequential scans for every chunking."""
from __future__ import annotations

import copy

import numpy as np

from ..cases import dec_array, enc_array
from ..cluster import TaskError, Violation
from ..oracle import values_diff
from ..redcase import (
    call_chunked,
    call_eager,
    decode_case,
    exec_sim,
    gen_scan_case,
    nblocks_reduced,
    plain_kwargs,
    shrink_reduce,
    simplify_knobs,
)
from ..refmodel import is_missing_label, scan_1d
from ..runner import REFUSALS, Skip, classify_exception
from ..simexec import RunInfo
from ..tape import Tape

ID = "C10"
LEVEL = "exploration"
BUDGET = {"quick": 45, "thorough": 900}
RULE = (
    "One run = one groupby_scan call (nancumsum / ffill / bfill) on float/int/bool/datetime data with NaN runs, "
    "interleaved groups, groups absent from some chunks, missing labels (ffill/bfill only), numpy labels (flox refuses chunked labels for scans), "
    "1-2-D, every chunking of the scanned axis from one chunk to all size-1 chunks (all prefix-tree shapes up to 12 "
    "blocks). The chunked graph (Blelloch up/down sweep carrying ScanState dataclasses) is executed on the simulated "
    "cluster under a seeded schedule with faults; oracles: (1) chunked == eager on every position, (2) eager == the "
    "sequential per-group NumPy scan of the reference model on every position whose label is not missing, (3) "
    "bfill(x) == reverse(ffill(reverse(x))). Non-trivial iff >=2 blocks and some group spans >=2 blocks. "
    "distinct_nontrivial = distinct (func, dtype kind, by kind, #blocks, group-skips-a-block flag, NaN-run-crosses-"
    "boundary flag, batch dims) cells."
)
ASSUMPTIONS = [
    "datetime input is compared with the reference model only when NaT-free (flox returns non-float input of ffill/bfill "
    "unchanged and the statement does not say whether NaT is 'missing'); otherwise only eager == chunked is required",
    "sampled, not exhaustive; task bodies atomic",
]
PROBES = ["running_sum_leaves_input_width", "dtype_kwarg", "narrow_or_unsigned_int", "blocks>=4", "blocks>=8", "group_skips_block", "nan_run_crosses_boundary", "block_all_nan_for_group",
          "all_size1_chunks", "missing_labels", "by_dask", "crash_recomputed_released_key"]


def gen(tape: Tape, tier: str) -> dict:
    case = gen_scan_case(tape, dtypes=("f8", "f8", "f4", "f4", "i8", "i4", "i2", "i1", "u1", "u4", "u8", "b1", "M8[ns]"),
                         max_n=48 if tier == "thorough" else 30, max_groups=7 if tier == "thorough" else 5, dtype_kw_p=0.25,
                         big_int_p=0.4)
    return case


def run(case, tape: Tape, ctx):
    kw = plain_kwargs(case)
    func = kw["func"]
    nb = nblocks_reduced(case)
    arr, bys, _ = decode_case(case)
    by = bys[0]
    try:
        ref = call_eager(case)[0]
    except REFUSALS as e:
        raise Skip(f"eager-refused:{type(e).__name__}")
    except Exception as e:  # noqa: BLE001
        cls, msg, det = classify_exception(e)
        det["which"] = "eager"
        raise Violation(cls, "eager scan: " + msg, **det)
    try:
        colls, assemble, out = call_chunked(case)
    except REFUSALS as e:
        raise Skip(f"refused:{type(e).__name__}")
    except Exception as e:  # noqa: BLE001
        cls, msg, det = classify_exception(e)
        raise Violation(cls, msg, **det)
    info = RunInfo()
    if colls:
        try:
            res = assemble(exec_sim(colls, tape, case["knobs"], ctx, info=info))[0]
        except TaskError as te:
            cls, msg, det = classify_exception(te)
            raise Violation(cls, msg, **det)
    else:
        res = out[0]
        ctx.count("shortcut_no_graph")
    res = np.asarray(res)
    ref = np.asarray(ref)
    d = values_diff(res, ref, what="chunked vs eager")
    if d:
        raise Violation("value", d)
    if res.dtype != ref.dtype:
        raise Violation("dtype", f"{func}: chunked result is {res.dtype}, eager result is {ref.dtype} (input {arr.dtype}, dtype={kw.get('dtype')!r})")
    ctx.probe("dtype_kwarg", "dtype" in kw)
    ctx.probe("running_sum_leaves_input_width", arr.dtype.kind in "iu" and func == "nancumsum" and arr.size > 0 and
              (int(np.abs(arr.astype(object)).max()) * 2 >= 2 ** (8 * arr.dtype.itemsize - 1) or int(np.abs(arr.astype(object)).max()) > 2 ** 53))
    ctx.probe("narrow_or_unsigned_int", arr.dtype.kind in "iu" and (arr.dtype.itemsize < 8 or arr.dtype.kind == "u"))
    if res.shape != arr.shape:
        raise Violation("meta", f"scan result shape {res.shape} != input shape {arr.shape}")
    # reference model, row by row
    missing = np.array([is_missing_label(x) for x in (by.tolist() if by.dtype.kind == "O" else by)], dtype=bool)
    rows = arr.reshape(-1, arr.shape[-1])
    erows = ref.reshape(-1, arr.shape[-1])
    use_model = not (arr.dtype.kind in "mM" and np.isnat(arr).any())
    chunks = case["chunks"][-1]
    edges = np.cumsum([0] + list(chunks))
    blk_of = np.searchsorted(edges, np.arange(arr.shape[-1]), side="right") - 1
    if use_model:
        for r in range(rows.shape[0]):
            want = scan_1d(func, rows[r].astype(kw["dtype"]) if "dtype" in kw else rows[r], by)
            got = erows[r]
            d = values_diff(got[~missing], want[~missing], what=f"eager vs sequential per-group {func} (row {r})")
            if d:
                raise Violation("value", d + f"; data {rows[r].tolist()} labels {by.tolist()}")
            ctx.count("rows_checked")
        if missing.any():
            ctx.skip_slot("position-with-missing-label", int(missing.sum()) * rows.shape[0])
    else:
        ctx.skip_slot("datetime-with-NaT:model-skipped")
    # mirror law
    if func in ("ffill", "bfill"):
        import flox

        other = "ffill" if func == "bfill" else "bfill"
        mir = flox.groupby_scan(arr[..., ::-1], by[::-1], func=other)[..., ::-1]
        d = values_diff(ref, np.asarray(mir), what=f"{func}(x) vs reverse({other}(reverse(x)))")
        if d:
            raise Violation("value", d)
    # coverage
    skips = False
    spans = False
    for g in set(by[~missing].tolist()):
        b = sorted(set(blk_of[by == g].tolist()))
        if len(b) >= 2:
            spans = True
            if b != list(range(b[0], b[-1] + 1)):
                skips = True
    nan_cross = False
    allnan_block = False
    if arr.dtype.kind == "f":
        for r in range(rows.shape[0]):
            isn = np.isnan(rows[r])
            for e in edges[1:-1]:
                if isn[e - 1] and isn[e]:
                    nan_cross = True
            for g in set(by[~missing].tolist()):
                for b in set(blk_of[by == g].tolist()):
                    if isn[(by == g) & (blk_of == b)].all():
                        allnan_block = True
    ctx.nontrivial = nb >= 2 and spans
    ctx.cell(func, arr.dtype.kind, "dask" if case["by_dask"] else "np", nb, int(skips), int(nan_cross), arr.ndim)
    ctx.probe("blocks>=4", nb >= 4)
    ctx.probe("blocks>=8", nb >= 8)
    ctx.probe("group_skips_block", skips)
    ctx.probe("nan_run_crosses_boundary", nan_cross)
    ctx.probe("block_all_nan_for_group", allnan_block)
    ctx.probe("all_size1_chunks", nb >= 2 and all(c == 1 for c in chunks))
    ctx.probe("missing_labels", bool(missing.any()))
    ctx.probe("by_dask", bool(case["by_dask"]))


shrink = shrink_reduce
simplify_knobs = simplify_knobs
