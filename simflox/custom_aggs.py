"""User-defined Aggregation objects built only from flox's public constructor.

Each entry: make() -> flox.Aggregation, ref(members: np.ndarray) -> value.
Callables are module-level functions, functools.partial of them, or closures
(the 'scaled' entry deliberately carries a closure: it must survive deepcopy
and cloudpickle because it is shipped inside every task).
"""
from __future__ import annotations

import math
from functools import partial

import numpy as np


def _npg():
    import numpy_groupies as npg

    return npg.aggregate_numpy.aggregate


def grouped_sumabs(group_idx, array, *, axis=-1, size=None, fill_value=None, dtype=None, **kw):
    return _npg()(group_idx, np.abs(array), func="sum", axis=axis, size=size, fill_value=fill_value, dtype=dtype)


def grouped_range(group_idx, array, *, axis=-1, size=None, fill_value=None, dtype=None, **kw):
    mx = _npg()(group_idx, array, func="max", axis=axis, size=size, fill_value=fill_value, dtype=dtype)
    mn = _npg()(group_idx, array, func="min", axis=axis, size=size, fill_value=fill_value, dtype=dtype)
    return mx - mn


def grouped_maxplussum(group_idx, array, *, axis=-1, size=None, fill_value=None, dtype=None, **kw):
    mx = _npg()(group_idx, array, func="max", axis=axis, size=size, fill_value=fill_value, dtype=dtype)
    sm = _npg()(group_idx, array, func="sum", axis=axis, size=size, fill_value=fill_value, dtype=dtype)
    return mx + sm


def _range_finalize(mx, mn):
    return mx - mn


def _mean_finalize(s, c):
    with np.errstate(invalid="ignore", divide="ignore"):
        return s / c


def _maxplussum_finalize(mx, s):
    return mx + s


def make_scaler(k):
    def scale(s):
        return s * k

    return scale


def make_scaled_numpy(k):
    def grouped_scaled_sum(group_idx, array, *, axis=-1, size=None, fill_value=None, dtype=None, **kw):
        return _npg()(group_idx, array, func="sum", axis=axis, size=size, fill_value=fill_value, dtype=dtype) * k

    return grouped_scaled_sum


def np_like_sum(a, axis=None, keepdims=False):
    """A combine given as a callable (NumPy reduction signature, as flox's simple combine calls it)."""
    return np.sum(a, axis=axis, keepdims=keepdims)


def _powmean_finalize(s, c, p=1):
    with np.errstate(invalid="ignore", divide="ignore"):
        return (s / c) ** p


def make_custom(name: str):
    from flox import Aggregation
    from flox import xrdtypes as dtypes

    if name == "sumabs":
        return Aggregation("sumabs", numpy=grouped_sumabs, chunk=(grouped_sumabs,), combine=("sum",), fill_value=0,
                           final_fill_value=0)
    if name == "range":
        return Aggregation("range", numpy=grouped_range, chunk=("max", "min"), combine=("max", "min"),
                           finalize=_range_finalize, fill_value=(dtypes.NINF, dtypes.INF), final_fill_value=np.nan,
                           final_dtype=np.floating)
    if name == "mean2":
        return Aggregation("mean2", numpy="mean", chunk=("sum", "nanlen"), combine=("sum", "sum"), finalize=_mean_finalize,
                           fill_value=(0, 0), dtypes=(None, np.intp), final_dtype=np.floating)
    if name == "maxplussum":
        return Aggregation("maxplussum", numpy=grouped_maxplussum, chunk=("max", "sum"), combine=("max", "sum"),
                           finalize=_maxplussum_finalize, fill_value=(dtypes.NINF, 0), final_fill_value=np.nan,
                           final_dtype=np.floating)
    if name == "scaled":
        return Aggregation("scaled", numpy=make_scaled_numpy(3), chunk=("sum",), combine=("sum",),
                           finalize=make_scaler(3), fill_value=0, final_fill_value=0)
    if name == "callcomb":
        return Aggregation("callcomb", numpy="sum", chunk=("sum",), combine=(np_like_sum,), fill_value=0, final_fill_value=0)
    if name == "powmean":
        # finalize takes a keyword that the caller supplies through finalize_kwargs={"p": 2}
        return Aggregation("powmean", numpy=grouped_powmean2, chunk=("sum", "nanlen"), combine=("sum", "sum"),
                           finalize=_powmean_finalize, fill_value=(0, 0), dtypes=(None, np.intp), final_dtype=np.floating)
    raise KeyError(name)


def grouped_powmean2(group_idx, array, *, axis=-1, size=None, fill_value=None, dtype=None, p=1, **kw):
    s = _npg()(group_idx, array, func="sum", axis=axis, size=size, fill_value=0)
    c = _npg()(group_idx, array, func="len", axis=axis, size=size, fill_value=0)
    with np.errstate(invalid="ignore", divide="ignore"):
        return (s / c) ** p


CUSTOM_KWARGS = {"powmean": {"finalize_kwargs": {"p": 2}}}


def ref_custom(name: str, v: np.ndarray):
    v = np.asarray(v, dtype="f8") if np.asarray(v).dtype.kind != "f" else np.asarray(v)
    with np.errstate(all="ignore"):
        if name == "sumabs":
            return np.sum(np.abs(v))
        if name == "range":
            return np.max(v) - np.min(v)
        if name == "mean2":
            return np.mean(v)
        if name == "maxplussum":
            return np.max(v) + np.sum(v)
        if name == "scaled":
            return np.sum(v) * 3
        if name == "callcomb":
            return np.sum(v)
        if name == "powmean":
            return np.mean(v) ** 2
    raise KeyError(name)


CUSTOM = ["sumabs", "range", "mean2", "maxplussum", "scaled", "callcomb", "powmean"]
