"""C04 — block/combine/finalize decomposition of each aggregation is exact; fills neutral."""
from __future__ import annotations

import copy
import math

import numpy as np

from ..cases import enc_array, enc_value
from ..cluster import TaskError, Violation
from ..custom_aggs import CUSTOM, ref_custom
from ..oracle import spy_plan, tol_for
from ..redcase import (
    ALL_TREE_FUNCS,
    ARG,
    BOOL,
    call_chunked,
    decode_case,
    exec_sim,
    nblocks_reduced,
    plain_kwargs,
    shrink_reduce,
    simplify_knobs,
    swarm_knobs,
)
from ..refmodel import AMBIGUOUS, members, np_reduce
from ..runner import REFUSALS, Skip, classify_exception
from ..simexec import RunInfo
from ..tape import Tape

ID = "C04"
LEVEL = "exploration"
BUDGET = {"quick": 45, "thorough": 900}
RULE = (
    "One run = one (aggregation, multiset, split): the members of one group (values from {-2,-1,0,1,2,0.5,NaN,+inf,-inf}; "
    "integers without the last three) are split into 1-4 ordered blocks where a block may hold no member of the group "
    "(only a second group, or only missing labels) or only NaN for it (up to 4 blocks; split_every 2, 3 or 4: pairwise merges over two levels as well as 3-4 partial results merged at once); every registry aggregation with a block stage and "
    "7 user-defined Aggregation objects built from the public constructor (callable block functions, a callable combine, finalize with finalize_kwargs, two "
    "intermediates with distinct fills, a dtypes tuple, a closure that must survive deepcopy and cloudpickle) under map-reduce (reindex "
    "at block or combine stage) and cohorts, executed on the "
    "simulated cluster with faults on (the aggregation object is shipped inside every task). Oracle: NumPy on the unsplit "
    "members (equal_nan; arg* only on NaN-free groups, nan* order/extreme reductions only when a valid member exists). "
    "Non-trivial iff >=2 blocks. distinct_nontrivial = distinct (aggregation, method, reindex, dtype kind, split "
    "pattern = per block present/absent/NaN-only, special values present) cells."
)
ASSUMPTIONS = ["sampled, not enumerated", "NumPy is the value oracle"]
PROBES = ["block_group_absent", "block_group_nan_only", "has_inf", "has_nan", "three_blocks_two_levels", "three_or_more_merged_at_once", "custom_aggregation",
          "custom_closure_pickled", "second_group", "cohorts"]

FLOAT_ALPHA = [-2.0, -1.0, 0.0, 1.0, 2.0, 0.5, math.nan, math.nan, math.inf, -math.inf]
INT_ALPHA = [-2, -1, 0, 1, 2]


def gen(tape: Tape, tier: str) -> dict:
    custom = tape.chance("gen.custom", 0.3)
    if custom:
        func = {"custom": tape.choice("gen.customname", CUSTOM)}
        fname = func["custom"]
    else:
        func = tape.choice("gen.func", ALL_TREE_FUNCS)
        fname = func
    dtype = tape.choice("gen.dtype", ["f8", "f8", "f8", "i8", "f4"])
    if fname in BOOL:
        dtype = "b1"
    dt = np.dtype(dtype)
    nblocks = tape.randint("gen.nblocks", 1, 4)
    nmem = tape.randint("gen.nmem", 1, 6)
    alpha = FLOAT_ALPHA if dt.kind == "f" else (INT_ALPHA if dt.kind == "i" else [False, True])
    if fname in ("prod", "nanprod") and dt.kind == "f":
        alpha = [1.0, -1.0, 2.0, 0.5, 0.0, math.nan, math.inf]
    if fname in ("argmax", "argmin"):
        alpha = [a for a in alpha if not (isinstance(a, float) and a != a)]
    mem = [tape.choice("gen.mem", alpha) for _ in range(nmem)]
    # which block each member of group A goes to (ordered, non-decreasing)
    cuts = sorted(tape.draw("gen.cut", nmem + 1) for _ in range(nblocks - 1))
    edges = [0] + cuts + [nmem]
    parts = [mem[a:b] for a, b in zip(edges[:-1], edges[1:])]
    two = tape.chance("gen.two", 0.5)
    vals, labs, chunks, pattern = [], [], [], []
    for p in parts:
        blockv, blockl = [], []
        for v in p:
            blockv.append(v)
            blockl.append(1.0)
        # interleave other-group / missing-label elements
        nother = tape.randint("gen.nother", 0 if p else 1, 2)
        for _ in range(nother):
            pos = tape.draw("gen.otherpos", len(blockv) + 1)
            blockv.insert(pos, tape.choice("gen.otherv", [x for x in alpha if not (isinstance(x, float) and x != x)] or alpha))
            blockl.insert(pos, 2.0 if (two and tape.chance("gen.otherlab", 0.7)) else math.nan)
        vals += blockv
        labs += blockl
        chunks.append(len(blockv))
        if not p:
            pattern.append("absent")
        elif dt.kind == "f" and all(isinstance(v, float) and v != v for v in p):
            pattern.append("nanonly")
        else:
            pattern.append("present")
    method = tape.choice("gen.method", ["map-reduce", "map-reduce", "cohorts"])
    reindex = tape.choice("gen.reindex", [None, True, False]) if method == "map-reduce" else tape.choice("gen.reindexc", [None, False])
    kwargs = {"func": func, "method": method}
    if custom:
        from ..custom_aggs import CUSTOM_KWARGS

        kwargs.update(CUSTOM_KWARGS.get(fname, {}))
    if reindex is not None:
        kwargs["reindex"] = reindex
    knobs = swarm_knobs(tape, nblocks, fault_free_p=0.2)
    knobs["split_every"] = tape.choice("gen.split_every", [2, 2, 3, 4])  # pairwise merges and 3-4 partials merged at once
    return {
        "kind": "reduce",
        "array": enc_array(np.array(vals, dtype=dt)),
        "by": [enc_array(np.array(labs, dtype="f8"))],
        "chunks": [chunks],
        "by_dask": False,
        "kwargs": enc_value(kwargs),
        "knobs": knobs,
        "meta": {"pattern": "/".join(pattern), "label_kind": "float", "ngroups": 2 if two else 1, "fname": fname,
                 "custom": bool(custom)},
    }


def run(case, tape: Tape, ctx):
    kw = plain_kwargs(case)
    fname = case["meta"]["fname"]
    custom = case["meta"]["custom"]
    arr, bys, _ = decode_case(case)
    by = bys[0]
    nb = nblocks_reduced(case)
    try:
        with spy_plan() as plan:
            colls, assemble, out = call_chunked(case)
    except REFUSALS as e:
        raise Skip(f"refused:{type(e).__name__}")
    except Exception as e:  # noqa: BLE001
        cls, msg, det = classify_exception(e)
        raise Violation(cls, msg, **det)
    info = RunInfo()
    try:
        res = assemble(exec_sim(colls, tape, case["knobs"], ctx, info=info))
    except TaskError as te:
        if isinstance(te.exc, REFUSALS) and not isinstance(te.exc, ValueError):
            raise Skip(f"refused-at-compute:{type(te.exc).__name__}")
        cls, msg, det = classify_exception(te)
        det.update(resolved_method=plan.get("method"), fname=fname)
        raise Violation(cls, msg, **det)
    result, groups = np.asarray(res[0]), np.asarray(res[1])
    pattern = case["meta"]["pattern"]
    vals_all = arr.tolist()
    has_inf = any(isinstance(v, float) and math.isinf(v) for v in vals_all)
    has_nan = any(isinstance(v, float) and v != v for v in vals_all)
    ctx.nontrivial = nb >= 2
    se = case["knobs"].get("split_every") or 2
    ctx.cell(fname, plan.get("method"), plan.get("reindex"), arr.dtype.kind, pattern, int(has_inf), int(has_nan), min(se, nb))
    ctx.probe("block_group_absent", "absent" in pattern)
    ctx.probe("block_group_nan_only", "nanonly" in pattern)
    ctx.probe("has_inf", has_inf)
    ctx.probe("has_nan", has_nan)
    ctx.probe("three_blocks_two_levels", nb >= 3 and se == 2)
    ctx.probe("three_or_more_merged_at_once", nb >= 3 and se >= 3)
    ctx.probe("custom_aggregation", custom)
    ctx.probe("custom_closure_pickled", fname == "scaled" and info.stats.get("ser_task", 0) > 0)
    ctx.probe("second_group", case["meta"]["ngroups"] == 2)
    ctx.probe("cohorts", plan.get("method") == "cohorts")
    if result.shape != (len(groups),):
        raise Violation("value", f"result shape {result.shape} for {len(groups)} groups")
    rtol, atol = tol_for(fname if not custom else "mean", result.dtype)
    for gi, g in enumerate(groups.tolist()):
        pos, vals = members(arr, by, g)
        if len(pos) == 0:
            ctx.skip_slot("group-without-members")
            continue
        if custom:
            v = np.asarray(vals)
            if v.dtype.kind == "f" and np.isnan(v).any():
                want = math.nan
            else:
                want = ref_custom(fname, v)
        else:
            want = np_reduce(fname, vals, pos)
        if want is AMBIGUOUS:
            ctx.skip_slot("ambiguous:" + fname)
            continue
        got = result[gi]
        w = np.asarray(want)
        gg = np.asarray(got)
        if w.dtype.kind == "f" or gg.dtype.kind == "f":
            with np.errstate(all="ignore"):
                ok = bool(np.isclose(gg.astype("f8"), w.astype("f8"), rtol=rtol, atol=atol, equal_nan=True))
        else:
            ok = bool(gg == w)
        if not ok:
            raise Violation(
                "value",
                f"{fname} of group {g} split as {pattern} over chunks {case['chunks'][0]}: merged partial results give "
                f"{got!r}, reducing all members {vals.tolist()} at once gives {want!r} "
                f"(plan {plan.get('method')}, reindex={plan.get('reindex')}, split_every={case['knobs'].get('split_every')})",
                resolved_method=plan.get("method"), fname=fname, pattern=pattern)
        ctx.count("groups_checked")


shrink = shrink_reduce
simplify_knobs = simplify_knobs
