"""Self-tests of the machinery (not part of any verdict).

determinism: the same run seeds executed (a) sequentially in one process, (b) over a
16-process pool, (c) in a fresh interpreter under another PYTHONHASHSEED must produce
byte-identical event-log digests.  (a)!=(b) is a failure; (a)!=(c) is reported.
"""
from __future__ import annotations

import concurrent.futures as cf
import glob
import importlib
import json
import multiprocessing as mp
import os
import subprocess
import sys
import time

from .runner import VERIF, execute_one
from .tape import Tape, derive_seed


def built_checks():
    return sorted(os.path.basename(p)[:-3] for p in glob.glob(os.path.join(VERIF, "simflox", "checks", "c[0-9]*.py")))


def _digest_range(args):
    name, seed, idxs, tier = args
    check = importlib.import_module(f"simflox.checks.{name}")
    out = {}
    for i in idxs:
        run_seed = derive_seed(seed, check.ID, i)
        case = check.gen(Tape(derive_seed(run_seed, "gen")), tier)
        try:
            v, ctx = execute_one(check, case, Tape(derive_seed(run_seed, "sched")), tier)
            out[str(i)] = ctx.log.digest() + ("" if v is None else ":" + v["cls"])
        except Exception as e:  # noqa: BLE001
            out[str(i)] = f"EXC:{type(e).__name__}"
    return out


def digests(name, seed, n, procs, tier="quick"):
    idxs = list(range(n))
    if procs <= 1:
        return _digest_range((name, seed, idxs, tier))
    out = {}
    with cf.ProcessPoolExecutor(max_workers=procs, mp_context=mp.get_context("fork")) as ex:
        for r in ex.map(_digest_range, [(name, seed, idxs[s::procs], tier) for s in range(procs)]):
            out.update(r)
    return out


def main(tier: str) -> int:
    import warnings

    warnings.filterwarnings("ignore")
    n = 24 if tier == "quick" else 200
    t0 = time.time()
    rc = 0
    for name in built_checks():
        w = getattr(importlib.import_module(f"simflox.checks.{name}"), "warmup", None)
        if w:
            w()  # e.g. the pristine-process zygote must be forked before flox is first called
    for name in built_checks():
        a = digests(name, 12345, n, 1)
        b = digests(name, 12345, n, 16)
        bad = [i for i in a if a[i] != b.get(i)]
        exc = [i for i in a if a[i].startswith("EXC")]
        env = {**os.environ, "PYTHONHASHSEED": "1", "SIMFLOX_HASHSEED": "1", "PYTHONPATH": VERIF}
        p = subprocess.run([sys.executable, "-m", "simflox.main", "digests:" + name, "--tier", tier],
                           capture_output=True, text=True, env=env, cwd=VERIF, timeout=1200)
        try:
            c = json.loads(p.stdout.strip().splitlines()[-1])
        except Exception:  # noqa: BLE001
            c = {}
            print(p.stdout[-500:], p.stderr[-500:])
        hs = [i for i in a if a[i] != c.get(i)]
        print(f"selftest determinism {name}: {n} seeds; 1-proc vs 16-proc mismatches={len(bad)}; "
              f"hashseed 0 vs 1 mismatches={len(hs)}; harness exceptions={len(exc)}")
        if bad or exc:
            rc = 2
            print("  FAIL", bad[:5], exc[:5], [a[i] for i in exc[:3]])
        if hs:
            print(f"  note: event logs depend on PYTHONHASHSEED for run indices {hs[:5]} (replays pin the hash seed)")
    print(f"selftest done in {time.time() - t0:.1f}s rc={rc}")
    return rc


def digests_main(name: str, tier: str) -> int:
    import warnings

    warnings.filterwarnings("ignore")
    n = 24 if tier == "quick" else 200
    w = getattr(importlib.import_module(f"simflox.checks.{name}"), "warmup", None)
    if w:
        w()
    print(json.dumps(digests(name, 12345, n, 4)))
    return 0
