"""C03 — result independent of reduction-tree shape, task order and scheduler."""
from __future__ import annotations

import copy

import numpy as np

from ..cluster import TaskError, Violation
from ..digest import deep_diff
from ..redcase import (
    ALL_TREE_FUNCS,
    call_chunked,
    exec_sim,
    gen_reduce_case,
    gen_scan_case,
    nblocks_reduced,
    plain_kwargs,
    shrink_reduce,
    simplify_knobs,
    swarm_knobs,
)
from ..cases import tree_depth
from ..runner import REFUSALS, Skip, classify_exception
from ..simexec import RunInfo, sim_compute
from ..tape import Tape

ID = "C03"
LEVEL = "exploration"
BUDGET = {"quick": 45, "thorough": 900}
RULE = (
    "One run = one generated (input, plan): values from an exact alphabet (small ints, dyadic rationals, NaN), "
    "labels random/periodic/runs/localised, 1-12 blocks on the reduced axis, reductions of every family and scans. "
    "The sync baseline of the graph is compared bit-for-bit (a) with K seeded executions of a freshly built identical "
    "graph on backend A (simulated cluster: reorder, duplicate, crash+recompute, pickled tasks/results, read-only "
    "buffers, two thread names) and backend B (real dask.local state machine on a simulated pool), and (b) with the "
    "same call rebuilt under every split_every from 2 to the number of blocks. A run is non-trivial iff the reduced "
    "axis has >=2 blocks and the graph has a combine stage (or, for scans, >=2 blocks). distinct_nontrivial counts "
    "distinct cells (func, method, reindex, label layout, dtype kind, by kind, tree depth, #blocks bucket) among "
    "non-trivial runs."
)
ASSUMPTIONS = [
    "sampled, not exhaustive: schedules, faults and inputs are drawn from one seeded PRNG per run",
    "task-level atomicity: a task body runs to completion once started (interleaving is at task granularity)",
    "numba kernels run single-threaded",
]
PROBES = [
    "multi_axis_tree_shapes", "tree_depth>=3", "cohorts_multi", "cohort_tree_depth>=2", "grouped_combine", "scan_blocks>=4",
    "crash_recomputed_released_key", "dup_second_result_kept", "inflight>=2", "backend_B", "thread_pool_name",
]


def gen(tape: Tape, tier: str) -> dict:
    if tape.chance("gen.kind.scan", 0.2):
        case = gen_scan_case(tape)
    elif tape.chance("gen.kind.nd", 0.2):
        # labels of 1-3 dimensions chunked along several axes, partial-axis reductions (C19's cell generator)
        from . import c19
        from ..cases import dec_value, enc_value

        case = c19.gen(tape, tier)
        case["kind"] = "reduce"
        kw = dec_value(case["kwargs"])
        m = tape.choice("gen.nd.method", ["map-reduce", "cohorts", None])
        if m is not None:
            kw["method"] = m
        case["kwargs"] = enc_value(kw)
        nb = len(case["chunks"][-1])
        case["knobs"] = swarm_knobs(tape, nb)
        case["meta"]["ngroups"] = 0
    else:
        case = gen_reduce_case(
            tape,
            funcs=ALL_TREE_FUNCS,
            methods=("map-reduce", "cohorts", "cohorts", None),
            reindexes=(None, None, True, False),
            max_n=40 if tier == "thorough" else 30,
            min_blocks=1,
            expected_modes=("none", "none", "exact", "superset"),
        )
    case["K"] = 3 if tier == "quick" else 8
    return case


def _baseline(case, split_every=None):
    colls, assemble, out = call_chunked(case, split_every)
    res = sim_compute(colls, backend="sync", optimize=False)
    return assemble(res)


def run(case, tape: Tape, ctx):
    knobs = case["knobs"]
    nb = nblocks_reduced(case)
    kw = plain_kwargs(case)
    func = kw["func"]
    try:
        base = _baseline(case)
    except REFUSALS as e:
        raise Skip(f"refused:{type(e).__name__}")
    except Exception as e:  # noqa: BLE001
        cls, msg, det = classify_exception(e)
        det["phase"] = "baseline"
        raise Violation(cls, msg, **det)
    se = knobs.get("split_every") or 4
    depth = tree_depth(nb, se)
    method = kw.get("method")
    ctx.nontrivial = nb >= 2
    arrdt = np.dtype(case["array"]["dtype"]).kind
    ctx.cell(func, method, kw.get("reindex"), case["meta"]["pattern"], arrdt,
             "dask" if case["by_dask"] else "np", min(depth, 4), min(nb, 6) if nb < 6 else "6+")
    ctx.probe("tree_depth>=3", depth >= 3)
    ctx.probe("scan_blocks>=4", case["kind"] == "scan" and nb >= 4)
    # 1. same graph, many executions
    for e in range(case.get("K", 3)):
        k2 = knobs if e == 0 else swarm_knobs(tape, nb)
        k2 = dict(k2)
        k2["split_every"] = se  # same graph
        if e % 3 == 2:
            k2["backend"] = "B"
        ctx.probe("backend_B", k2["backend"] == "B")
        ctx.probe("thread_pool_name", k2.get("thread_name") != "MainThread" and k2["backend"] == "A")
        colls, assemble, _ = call_chunked(case, se)
        info = RunInfo()
        try:
            res = assemble(exec_sim(colls, tape, k2, ctx, info=info))
        except TaskError as te:
            cls, msg, det = classify_exception(te)
            det.update(phase="simulated", execution=e, backend=k2["backend"])
            raise Violation("schedule-dependent-error", f"baseline succeeded but a simulated execution failed: {msg}", **det)
        if e == 0 and info.graph is not None:
            names = {k[0] if isinstance(k, tuple) else k for k in info.graph}
            ncoh = len({n for n in names if isinstance(n, str) and n.startswith("groupby-cohort-")})
            ctx.probe("cohorts_multi", ncoh > 1)
            ctx.probe("cohort_tree_depth>=2", any("-partial-" in n for n in names if isinstance(n, str)))
            ctx.probe("grouped_combine", func.startswith(("arg", "nanarg")) or (func in ("nanfirst", "nanlast") and arrdt != "f"))
        d = deep_diff(res, base)
        if d:
            raise Violation(
                "value", f"execution {e} on backend {k2['backend']} differs from the sync baseline of the same graph: {d}",
                execution=e, backend=k2["backend"], faults=k2.get("faults"),
            )
    # 2. every tree shape
    by_ndim = len(case["by"][0]["shape"])
    nb_axes = [len(c) for c in case["chunks"][-by_ndim:]]
    if case["kind"] == "reduce" and max(nb_axes) >= 2:
        ks = list(range(2, nb + 1))
        if len(ks) > 6:
            ks = sorted(set([2, 3, nb] + tape.shuffle("gen.ks", ks)[:3]))
        if by_ndim > 1:
            # several reduced axes: dask gives each axis split_every ** (1/naxes); include the split_every that
            # makes the tree ONE level deep on every axis (the flat reference) and an intermediate one
            flat = max(nb_axes) ** by_ndim
            ks = sorted(set(ks + [flat, max(2, flat // 2), max(nb_axes)]))
            ctx.probe("multi_axis_tree_shapes")
        for k in ks:
            if k == se:
                continue
            try:
                colls, assemble, _ = call_chunked(case, k)
                if tape.chance("sched.tree.sim", 0.5):
                    res = assemble(exec_sim(colls, tape, {"backend": "A", "workers": 2, "faults": {}}, ctx))
                else:
                    res = assemble(sim_compute(colls, backend="sync"))
            except REFUSALS as e:
                raise Violation("tree-shape", f"split_every={k} is refused ({type(e).__name__}: {e}) while split_every={se} works", split_every=k)
            except Exception as e:  # noqa: BLE001
                cls, msg, det = classify_exception(e)
                det.update(phase="tree", split_every=k, tree_depth=tree_depth(nb, k))
                raise Violation(cls, f"split_every={k}: {msg}", **det)
            ctx.probe("tree_depth>=3", tree_depth(nb, k) >= 3)
            d = deep_diff(res, base)
            if d:
                raise Violation(
                    "value", f"split_every={k} (depth {tree_depth(nb, k)}) gives a different result than split_every={se}: {d}",
                    split_every=k, base_split_every=se,
                )


def shrink(case):
    if case.get("K", 3) > 1:
        c = copy.deepcopy(case)
        c["K"] = 1
        yield c
    yield from shrink_reduce(case)


simplify_knobs = simplify_knobs
