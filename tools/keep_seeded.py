#!/venv/bin/python
"""tools/keep_seeded.py <ID> <worktree> --breaks C13 --needs "..." --caught C14,C13 [--missed C04] [--note "..."] [--suite "missing=0"]
Copy a verified seeded change into /verif/seeded/<ID>/ with its meta.json."""
import argparse
import json
import os
import shutil
import subprocess

ap = argparse.ArgumentParser()
ap.add_argument("id")
ap.add_argument("wt")
ap.add_argument("--breaks", required=True)
ap.add_argument("--needs", required=True)
ap.add_argument("--caught", default="")
ap.add_argument("--missed", default="")
ap.add_argument("--note", default="")
ap.add_argument("--suite", default="")
ap.add_argument("--demo", default="demo.py exits 1 with the change, 0 without (run in the worktree)")
a = ap.parse_args()
dst = os.path.join(os.path.dirname(os.path.dirname(os.path.abspath(__file__))), "seeded", a.id)
os.makedirs(dst, exist_ok=True)
for f in ("patch.diff", "demo.py", "NOTES.md"):
    if os.path.exists(os.path.join(a.wt, f)):
        shutil.copy(os.path.join(a.wt, f), os.path.join(dst, f))
base = subprocess.run(["git", "-C", a.wt, "rev-parse", "HEAD"], capture_output=True, text=True).stdout.strip()
meta = {
    "id": a.id,
    "breaks_property": a.breaks,
    "needs_to_manifest": a.needs,
    "applies_to_flox_commit": base,
    "what_was_run": {
        "suite": a.suite or "tools/baseline.py <worktree with the change>: every BASELINE stable_pass test still passes (missing=0)",
        "demo": a.demo,
        "checks": "tools/seeded.sh (SIMFLOX_REPO=<worktree with the change applied>, quick tier, 45 s budget, /repo untouched)",
    },
    "caught_by": [c for c in a.caught.split(",") if c],
    "not_caught_by": [c for c in a.missed.split(",") if c],
    "note": a.note,
    "origin": "independent sub-agent given only the property text and a scratch worktree",
}
json.dump(meta, open(os.path.join(dst, "meta.json"), "w"), indent=1)
print("kept", dst)
