#!/bin/bash
# tools/seeded.sh <ID> <dir with patch.diff + demo.py> <checks...>
# Verifies a seeded change on scratch copies (never /repo, never git stash: the stash is shared by all
# worktrees of a repository): orig = `git archive <base>`, changed = orig + patch.diff.
#   env: BASE=<commit> (default: /repo HEAD), SKIP_SUITE=1, SEED_BUDGET_S, SUITE_N
id=$1; src=$2; shift 2
cd "$(dirname "$0")/.."
base=${BASE:-$(git -C /repo rev-parse HEAD)}
top=/tmp/seedtest-$id; rm -rf $top; mkdir -p $top/orig $top/changed $top/out
git -C /repo archive $base | tar -x -C $top/orig
git -C /repo archive $base | tar -x -C $top/changed
cp /repo/flox/_version.py $top/orig/flox/ 2>/dev/null; cp /repo/flox/_version.py $top/changed/flox/ 2>/dev/null
if ! (cd $top/changed && patch -p1 -s < $src/patch.diff); then echo "PATCH DOES NOT APPLY to $base"; fi
cp $src/demo.py $top/orig/; cp $src/demo.py $top/changed/
echo "== base $base"
echo "== demo with change";    (cd $top/changed && timeout 900 /venv/bin/python demo.py >/dev/null 2>&1; echo "rc=$?")
echo "== demo without change"; (cd $top/orig    && timeout 900 /venv/bin/python demo.py >/dev/null 2>&1; echo "rc=$?")
if [ -z "$SKIP_SUITE" ]; then echo "== suite with change"; tools/baseline.py $top/changed -n ${SUITE_N:-8} | tail -2; fi
for c in "$@"; do
  t0=$(date +%s)
  o=$(SIMFLOX_REPO=$top/changed SIMFLOX_EVIDENCE_DIR=$top/out VERIF_DET_RATE=0 VERIF_BUDGET_S=${SEED_BUDGET_S:-45} ./check $c --tier quick 2>&1); rc=$?
  echo "== $c rc=$rc $(( $(date +%s) - t0 ))s :: $(echo "$o" | grep -E '^minimised|^HARNESS' | cut -c1-400)"
done
[ -z "$KEEP_SCRATCH" ] && rm -rf $top/orig $top/changed
