"""C12 — graph construction is lazy; labels found at compute time give the same mapping."""
from __future__ import annotations

import copy

import numpy as np

from ..cluster import TaskError, Violation
from ..oracle import tol_for
from ..redcase import (
    ALL_TREE_FUNCS,
    call_eager,
    decode_case,
    exec_sim,
    gen_reduce_case,
    gen_scan_case,
    nblocks_reduced,
    plain_kwargs,
    shrink_reduce,
    simplify_knobs,
)
from ..runner import REFUSALS, Skip, classify_exception
from ..simexec import RunInfo
from ..tape import Tape

ID = "C12"
LEVEL = "exploration"
BUDGET = {"quick": 45, "thorough": 900}
RULE = (
    "One run = one entry-point call (groupby_reduce, groupby_scan, xarray_reduce, rechunk_for_blockwise, "
    "rechunk_for_cohorts) with chunked inputs under a scheduler trap (dask.config scheduler that records every "
    "invocation and continues) and with poisoned chunks (every input chunk task bumps a counter, so evaluation through "
    "any path is seen). Verdict eager-eval if either fires during the call, verdict meta if the returned object is not "
    "lazy. Cells: reductions/scans x method x engine x reindex x numpy/dask labels x with/without expected_groups. "
    "Second clause: for chunked labels without expected_groups the result and the label array are computed together "
    "on the simulated cluster (faults on) and the label->value mapping must equal the eager one. A run is non-trivial "
    "iff it has a chunked argument with >=2 blocks. distinct_nontrivial = distinct (api, func, method, engine, "
    "reindex, by kind, expected present, unknown-labels) cells."
)
ASSUMPTIONS = [
    "the trap sees evaluations that go through dask's configured scheduler; the poison sees any evaluation of an input chunk "
    "(also through an explicitly passed scheduler); metadata inference on zero-size arrays is not an evaluation",
    "sampled, not exhaustive",
]
PROBES = ["api_xr_rechunk_for_blockwise", "api_xr_rechunk_for_cohorts", "api_groupby_reduce", "api_groupby_scan", "api_xarray_reduce", "api_rechunk_for_blockwise", "api_rechunk_for_cohorts",
          "unknown_labels_mapping_checked", "unknown_labels_sort_false", "by_dask", "poisoned_chunks_later_evaluated"]

_COUNTER = {"poison": 0, "trap": 0}


def _poison(block):
    _COUNTER["poison"] += 1
    return block


def gen(tape: Tape, tier: str) -> dict:
    r = tape.draw("gen.api", 10)
    if r < 2:
        case = gen_scan_case(tape, max_blocks=6)
        case["api"] = "groupby_scan"
    elif r == 9:
        from ..redcase import gen_multi_by_case

        case = gen_multi_by_case(tape)
        case["api"] = "groupby_reduce"
    else:
        case = gen_reduce_case(
            tape,
            funcs=ALL_TREE_FUNCS + ["first", "last", "median", "quantile"],
            methods=("map-reduce", "cohorts", None, None, "blockwise"),
            reindexes=(None, None, True, False),
            engines=(None, None, "numpy", "flox", "numbagg"),
            max_n=20,
            max_blocks=6,
            by_dask_p=0.5,
            by_dask_any_method=True,
            expected_modes=("none", "none", "exact", "superset"),
            sort_choices=(True, True, False),
            block_missing_p=0.25,
            max_ndim=2,
        )
        if r < 4 and len(case["by"][0]["shape"]) == 1:
            case["api"] = "xarray_reduce"
        elif r == 4:
            case["api"] = "rechunk_for_blockwise"
        elif r == 5:
            case["api"] = tape.choice("gen.c12.rc", ["rechunk_for_cohorts", "xr_rechunk_for_blockwise", "xr_rechunk_for_cohorts"])
        else:
            case["api"] = "groupby_reduce"
    return case


def _poisoned_inputs(case, arr, bys):
    import dask.array as da

    chunks = tuple(tuple(c) for c in case["chunks"])
    darr = da.from_array(arr, chunks=chunks).map_blocks(_poison, dtype=arr.dtype, meta=np.empty((0,) * arr.ndim, dtype=arr.dtype))
    out = []
    for b in bys:
        if case.get("by_dask"):
            bch = tuple(chunks[arr.ndim - b.ndim + ax] if b.shape[ax] != 1 else (1,) for ax in range(b.ndim))
            out.append(da.from_array(b, chunks=bch).map_blocks(_poison, dtype=b.dtype, meta=np.empty((0,) * b.ndim, dtype=b.dtype)))
        else:
            out.append(b)
    return darr, out


def run(case, tape: Tape, ctx):
    import dask
    import flox
    from dask.base import is_dask_collection

    kw = plain_kwargs(case)
    func = kw["func"]
    api = case.get("api", "groupby_reduce")
    arr, bys, kwargs = decode_case(case)
    nb = nblocks_reduced(case)
    darr, dbys = _poisoned_inputs(case, arr, bys)
    _COUNTER["poison"] = 0
    _COUNTER["trap"] = 0

    def trap(dsk, keys, **k):
        _COUNTER["trap"] += 1
        return dask.get(dsk, keys, **k)

    se = case.get("knobs", {}).get("split_every")
    ctx.probe("api_" + api)
    ctx.probe("by_dask", bool(case.get("by_dask")))
    try:
        with dask.config.set(scheduler=trap, **({"split_every": se} if se else {})):
            if api == "groupby_reduce":
                out = flox.groupby_reduce(darr, *dbys, **kwargs)
            elif api == "groupby_scan":
                out = (flox.groupby_scan(darr, *dbys, **kwargs),)
            elif api == "xarray_reduce":
                import xarray as xr

                from flox.xarray import xarray_reduce

                dims = [f"d{i}" for i in range(arr.ndim)]
                obj = xr.DataArray(darr, dims=dims, name="v")
                lab = xr.DataArray(dbys[0], dims=[dims[-1]], name="lab")
                xkw = {k: v for k, v in kwargs.items() if k in ("func", "expected_groups", "fill_value", "method", "engine", "reindex", "min_count", "sort")}
                xkw.update(kwargs.get("finalize_kwargs") or {})
                res = xarray_reduce(obj, lab, **xkw)
                out = (res.data,)
            elif api in ("xr_rechunk_for_blockwise", "xr_rechunk_for_cohorts"):
                import xarray as xr

                import flox.xarray as fx

                dims = [f"d{i}" for i in range(arr.ndim)]
                lab1 = bys[0]
                labda = xr.DataArray(lab1, dims=[dims[-1]], name="lab")
                obj = xr.DataArray(darr, dims=dims, name="v")
                if tape.chance("gen.c12.ds", 0.5):
                    obj = xr.Dataset({"v": obj, "w": obj * 2})
                if api == "xr_rechunk_for_blockwise":
                    res = fx.rechunk_for_blockwise(obj, dims[-1], labda)
                else:
                    ok = lab1[~(lab1 != lab1)] if lab1.dtype.kind == "f" else lab1
                    res = fx.rechunk_for_cohorts(obj, dims[-1], labda, force_new_chunk_at=[ok[0]],
                                                 chunksize=max(1, int(np.median(case["chunks"][-1]))))
                out = (res["v"].data if isinstance(res, xr.Dataset) else res.data,)
            elif api == "rechunk_for_blockwise":
                out = (flox.rechunk_for_blockwise(darr, axis=-1, labels=bys[0]),)
            elif api == "rechunk_for_cohorts":
                lab = bys[0]
                ok = lab[~(lab != lab)] if lab.dtype.kind == "f" else lab
                out = (flox.rechunk_for_cohorts(darr, axis=-1, labels=lab, force_new_chunk_at=[ok[0]],
                                                chunksize=max(1, int(np.median(case["chunks"][-1])))),)
            else:
                raise ValueError(api)
    except REFUSALS as e:
        if _COUNTER["trap"] or _COUNTER["poison"]:
            raise Violation("eager-eval", f"{api} evaluated chunks (scheduler calls={_COUNTER['trap']}, chunk evaluations="
                            f"{_COUNTER['poison']}) before refusing with {type(e).__name__}", api=api)
        raise Skip(f"refused:{type(e).__name__}")
    except Exception as e:  # noqa: BLE001
        cls, msg, det = classify_exception(e)
        det["api"] = api
        raise Violation(cls, msg, **det)
    ctx.nontrivial = nb >= 2
    ctx.cell(api, func, kw.get("method"), kw.get("engine"), kw.get("reindex"), "dask" if case.get("by_dask") else "np",
             "expected_groups" in kw)
    if _COUNTER["trap"] or _COUNTER["poison"]:
        raise Violation(
            "eager-eval",
            f"{api}(func={func}, method={kw.get('method')}, engine={kw.get('engine')}) evaluated chunked inputs during "
            f"graph construction: scheduler invocations={_COUNTER['trap']}, chunk evaluations={_COUNTER['poison']}",
            api=api, trap=_COUNTER["trap"], poison=_COUNTER["poison"],
        )
    if not is_dask_collection(out[0]):
        raise Violation("meta", f"{api} returned {type(out[0]).__name__} for a chunked input, not a lazy array", api=api)
    # the poison must fire when we do compute (sanity of the instrument itself)
    if api in ("groupby_reduce", "groupby_scan") and tape.chance("sched.c12.compute", 0.25 if not (case.get("by_dask") and "expected_groups" not in kw) else 1.0):
        colls = [o for o in out if is_dask_collection(o)]
        try:
            comp = exec_sim(colls, tape, case["knobs"], ctx, info=RunInfo())
        except TaskError as te:
            if isinstance(te.exc, REFUSALS):
                # a refusal raised at compute time is C19's business, not a laziness question
                ctx.skip_slot("refused-at-compute")
                return
            cls, msg, det = classify_exception(te)
            det["api"] = api
            raise Violation(cls, msg, **det)
        if _COUNTER["poison"] == 0:
            raise RuntimeError("poison instrument did not fire during an explicit compute")
        ctx.probe("poisoned_chunks_later_evaluated")
        if api == "groupby_reduce" and case.get("by_dask") and "expected_groups" not in kw and len(out) == 2 and is_dask_collection(out[1]):
            # second clause: labels discovered at compute time
            try:
                eager = call_eager(case)
            except Exception as e:  # noqa: BLE001
                # no eager reference (e.g. no valid label at all): nothing to compare the mapping with
                ctx.skip_slot(f"eager-failed:{type(e).__name__}")
                return
            res, labs = np.asarray(comp[0]), np.asarray(comp[1])
            eres, elabs = np.asarray(eager[0]), np.asarray(eager[1])
            rtol, atol = tol_for(func, res.dtype, eres.dtype)
            if res.shape[-1] != len(labs):
                raise Violation("labels", f"{len(labs)} labels for {res.shape[-1]} result slots", api=api)
            got = {repr(l): res[..., i] for i, l in enumerate(labs.tolist())}
            want = {repr(l): eres[..., i] for i, l in enumerate(elabs.tolist())}
            if set(got) != set(want) or len(labs) != len(set(map(repr, labs.tolist()))):
                raise Violation("labels", f"labels found at compute time {labs.tolist()} != eager labels {elabs.tolist()}", api=api)
            for k in want:
                a, b = np.asarray(got[k]), np.asarray(want[k])
                if a.dtype.kind == "f" or b.dtype.kind == "f":
                    ok = np.allclose(a.astype("f8"), b.astype("f8"), rtol=rtol, atol=atol, equal_nan=True)
                else:
                    ok = np.array_equal(a, b)
                if not ok:
                    raise Violation("value", f"label {k}: compute-time value {a.tolist()} != eager {b.tolist()}", api=api)
            ctx.probe("unknown_labels_mapping_checked")
            ctx.probe("unknown_labels_sort_false", kw.get("sort") is False)


shrink = shrink_reduce
simplify_knobs = simplify_knobs
