"""The choice tape: one integer decides everything.

In generation mode every draw comes from one ``random.Random(seed)`` and is
recorded as ``[label, n, value]``.  In replay mode the recorded values are fed
back in order (``value % n``; 0 when the tape runs out), so a shrunk tape is
still a valid run and replay does not depend on the PRNG implementation.
"""
from __future__ import annotations

import hashlib
import random


def derive_seed(*parts) -> int:
    h = hashlib.blake2b(repr(parts).encode(), digest_size=8).digest()
    return int.from_bytes(h, "big")


class Tape:
    __slots__ = ("rng", "feed", "pos", "rec", "counts")

    def __init__(self, seed: int | None = None, replay: list | None = None):
        if replay is not None:
            self.rng = None
            self.feed = [int(r[2]) if isinstance(r, (list, tuple)) else int(r) for r in replay]
        else:
            self.rng = random.Random(seed)
            self.feed = None
        self.pos = 0
        self.rec: list[list] = []
        self.counts: dict[str, int] = {}

    # -- primitive ---------------------------------------------------------
    def draw(self, label: str, n: int) -> int:
        """Return an integer in [0, n).  n <= 1 consumes nothing."""
        if n <= 1:
            return 0
        if self.feed is not None:
            v = self.feed[self.pos] % n if self.pos < len(self.feed) else 0
            self.pos += 1
        else:
            v = self.rng.randrange(n)
        self.rec.append([label, n, v])
        return v

    # -- conveniences --------------------------------------------------------
    def chance(self, label: str, p: float) -> bool:
        """True with probability p.  A zeroed tape entry never fires (p<1)."""
        if p <= 0:
            return False
        k = int(round(p * 1000))
        if k >= 1000:
            return True
        return self.draw(label, 1000) >= 1000 - k

    def choice(self, label: str, seq):
        seq = list(seq)
        return seq[self.draw(label, len(seq))]

    def randint(self, label: str, lo: int, hi: int) -> int:
        """Inclusive bounds."""
        return lo + self.draw(label, hi - lo + 1)

    def shuffle(self, label: str, seq) -> list:
        seq = list(seq)
        out = []
        while seq:
            out.append(seq.pop(self.draw(label, len(seq))))
        return out

    def subset(self, label: str, seq, p: float = 0.5) -> list:
        return [s for s in seq if self.chance(label, p)]
