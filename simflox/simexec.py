"""Run dask collections on the simulated backends.

dask's real front half (graph materialisation, optimisation, multi-collection
merge, finalisation) runs inside ``dask.compute``; the scheduler callable we
pass receives ``(graph, keys)``, renames the graph canonically and executes it
on backend A (SimCluster), backend B (dask.local on a simulated pool) or
dask's synchronous scheduler (the baseline).
"""
from __future__ import annotations

import dask
import dask.local as dlocal
from dask._task_spec import DataNode, fuse_linear_task_spec

from .canon import Canon, canonical_graph, keystr
from .cluster import EventLog, SimCluster
from .dasklocal import run_dask_local
from .digest import digest
from .tape import Tape


class RunInfo:
    def __init__(self):
        self.ntasks = 0
        self.ndata = 0
        self.stats: dict = {}
        self.order: list = []
        self.loaded: list = []
        self.layers: list = []
        self.graph = None
        self.keys = None
        self.canon: Canon | None = None
        self.blocks: dict = {}


def graph_of(colls, optimize: bool = False):
    """Return the canonical materialised graph, keys of a compute of colls (no execution)."""
    cap = {}

    class _Stop(Exception):
        pass

    def sched(dsk, keys, **kw):
        g, ck, canon, keymap = canonical_graph(dsk, keys)
        cap.update(g=g, keys=ck, canon=canon, keymap=keymap)
        raise _Stop

    try:
        with dask.config.set({"optimization.fuse.active": False}):
            dask.compute(*colls, scheduler=sched, optimize_graph=optimize)
    except _Stop:
        pass
    return cap["g"], cap["keys"], cap["canon"]


def sim_compute(
    colls,
    *,
    tape: Tape | None = None,
    backend: str = "sync",
    workers: int = 2,
    faults: dict | None = None,
    optimize: bool = False,
    thread_name: str = "MainThread",
    log: EventLog | None = None,
    always_dup: bool = False,
    always_pickle: bool = False,
    crash_after=None,
    max_crashes: int = 3,
    info: RunInfo | None = None,
    pickle_b: bool = False,
    block_keys_of=None,
    trace_p: float = 0.0,
):
    """Compute collections; returns tuple of results (like dask.compute).

    block_keys_of: optional dask array whose individual blocks are requested in
    addition (backend A only); they are stored in info.blocks {block index: value}.
    """
    info = info if info is not None else RunInfo()
    log = log if log is not None else EventLog()

    def sched(dsk, keys, **kw):
        g, ck, canon, keymap = canonical_graph(dsk, keys)
        if optimize:
            # low-level linear fusion on the canonical graph (deterministic fused names);
            # the HighLevelGraph optimisations (blockwise fusion, cull) already ran in dask.compute
            g = fuse_linear_task_spec(g, keys=set(_flat(ck)))
        info.graph, info.keys, info.canon = g, ck, canon
        info.ntasks = sum(1 for n in g.values() if not isinstance(n, DataNode))
        info.ndata = len(g) - info.ntasks
        log.add(f"GRAPH tasks={info.ntasks} data={info.ndata} backend={backend}")
        if backend == "sync":
            res = dlocal.get_sync(g, ck)
            return res
        data_digests = {k: digest(n.value) for k, n in g.items() if isinstance(n, DataNode)}
        extra = []
        if block_keys_of is not None and backend == "A":
            from dask.core import flatten

            for k in flatten(block_keys_of.__dask_keys__()):
                if keymap.get(k, k) in g:
                    extra.append(keymap.get(k, k))
        if backend == "A":
            cl = SimCluster(
                tape,
                workers=workers,
                faults=faults,
                thread_name=thread_name,
                log=log,
                always_dup=always_dup,
                always_pickle=always_pickle,
                crash_after=crash_after,
                max_crashes=max_crashes,
                trace_p=trace_p,
            )
            try:
                if extra:
                    both = cl.get(g, [ck, extra], data_digests)
                    res = both[0]
                    info.blocks = {k[1:]: v for k, v in zip(extra, both[1])}
                else:
                    res = cl.get(g, ck, data_digests)
            finally:
                info.stats = cl.stats
                info.order = cl.order
                info.loaded = [keystr(k) for k in cl.loaded_data]
            return res
        if backend == "B":
            res, pool = run_dask_local(g, ck, tape, num_workers=workers, pickle=pickle_b, log=log)
            info.stats = pool.stats
            info.order = pool.order
            from .cluster import Violation

            for k, dg in data_digests.items():
                if digest(g[k].value) != dg:
                    raise Violation("mutation", f"input block {keystr(k)} was modified during execution", key=keystr(k))
            return res
        raise ValueError(backend)

    with dask.config.set({"optimization.fuse.active": False}):
        return dask.compute(*colls, scheduler=sched, optimize_graph=optimize)


def _flat(ks):
    if isinstance(ks, list):
        for x in ks:
            yield from _flat(x)
    else:
        yield ks
