"""C09 — cohort planner sound; blocks covered; members counted exactly once."""
from __future__ import annotations

import copy
import itertools
import math
import os

import numpy as np

from ..cases import dec_array, enc_array, enc_value, gen_chunks, gen_codes
from ..cluster import TaskError, Violation
from ..redcase import exec_sim, shrink_reduce, simplify_knobs, swarm_knobs
from ..runner import REFUSALS, Skip, classify_exception
from ..seams import simulated_planner_pool, simulated_planner_pool_preemptive
from ..simexec import RunInfo
from ..tape import Tape

ID = "C09"
LEVEL = "exploration"
BUDGET = {"quick": 45, "thorough": 900}
RULE = (
    "Three layers per batch. (1) planner: flox.core.find_group_cohorts called with generated integer label codes "
    "(periodic / localised / random / runs; 1-D and 2-D; -1 for missing, labels absent from expected_groups), chunk "
    "layouts and merge flag, with flox's planner thread pool replaced by a simulated executor whose job order comes "
    "from the tape (and, for a quarter of the quick runs and all thorough runs, whose jobs are real threads stepped one source line at a time under sys.settrace with the tape choosing which job advances: the plan must equal the sequentially computed plan): every present label in exactly one cohort, each cohort's block set covers every block holding one of "
    "its labels, 'blockwise' only if every label lives in one block. (2) closure as history: for a random strategy the "
    "graph is executed on the simulated cluster once per (sampled) output chunk with only that chunk requested; the "
    "recorded history of value blocks loaded must contain every block holding one of the chunk's labels and no block of "
    "another batch slice; a second closure layer does the same for labels with TWO axes (every group inside one block) under a value array whose batch dimension is chunked (blockwise / auto / cohorts / map-reduce). (3) exactly-once as conservation: element i of row r carries (r+1)*3**i in int64 (<=32 elements, so every sum is < 2**53); group sums and "
    "counts under every strategy with duplicate-execution, crash/recompute and cull faults must equal the membership "
    "sums exactly (a digit other than the expected one names a dropped or double-counted element). Non-trivial iff >=2 "
    "blocks and >=2 groups. distinct_nontrivial = distinct (layer, pattern, label ndim, #blocks, merge / resolved "
    "method, planner preference, #cohorts bucket) cells."
)
ASSUMPTIONS = [
    "sampled, not enumerated (the exhaustive-up-to-a-bound part of the quantifier would be model checking)",
    "line-level interleaving of planner jobs switches threads only at Python line boundaries inside flox frames (not inside a NumPy call)",
]
PROBES = ["planner_broadcast_labels", "closure2d_blockwise", "closure2d_batch_chunked", "planner_more_jobs_than_pool_workers", "planner_jobs_preempted_linewise", "planner_threadpool_branch", "planner_serial_branch", "planner_jobs_reordered", "planner_prefers_cohorts",
          "planner_prefers_blockwise", "planner_prefers_mapreduce", "planner_merged_by_containment", "labels_2d",
          "closure_cohorts", "closure_blockwise", "conservation_crash", "conservation_dup", "cohorts_multi"]


def gen(tape: Tape, tier: str) -> dict:
    layer = tape.choice("gen.layer", ["planner", "planner", "closure", "conserve", "conserve", "closure2d"])
    if layer == "closure2d":
        return gen_closure2d(tape, tier)
    ndim = 2 if (layer == "planner" and tape.chance("gen.2d", 0.3)) else 1
    many = layer == "planner" and ndim == 1 and tape.chance("gen.manychunks", 0.3)
    if many:
        # more chunks than a default thread pool has workers (cpu_count + 4), first chunk large enough for the
        # planner to take its thread-pool branch (nlabels < 2 * size of the first chunk)
        n = tape.randint("gen.n.many", 30, 72)
        shape = [n]
    elif ndim == 1:
        # 2 * sum(3**i, i<32) < 2**53: group sums stay exact even where a kernel accumulates in float64
        n = tape.randint("gen.n", 2, 32)
        shape = [n]
    else:
        shape = [tape.randint("gen.n0", 1, 6), tape.randint("gen.n1", 2, 8)]
    total = int(np.prod(shape))
    ngroups = tape.randint("gen.ngroups", 1, min(8, total))
    codes, pattern = gen_codes(tape, total, ngroups)
    codes = codes.reshape(shape)
    if tape.chance("gen.missing", 0.3):
        flat = codes.reshape(-1)
        for i in range(flat.size):
            if tape.chance("gen.miss1", 0.15):
                flat[i] = -1
    chunks = [gen_chunks(tape, s, max_blocks=12) for s in shape]
    if many:
        first = tape.randint("gen.many.first", 4, 10)
        rest = n - first
        tail = []
        while rest > 0:
            c = min(rest, tape.choice("gen.many.c", [1, 1, 1, 2]))
            tail.append(c)
            rest -= c
        chunks = [[first] + tail]
    case = {
        "kind": "planner" if layer == "planner" else layer,
        "codes": enc_array(codes),
        "chunks": chunks,
        "meta": {"pattern": pattern},
    }
    if layer == "planner" and ndim == 2 and tape.chance("gen.broadcast", 0.3):
        # labels with a size-1 axis that broadcasts against a value array with several blocks along that axis
        case["codes"] = enc_array(codes[:1, :])
        m = tape.randint("gen.broadcast.m", 2, 4)
        case["chunks"] = [gen_chunks(tape, m, "gen.broadcast.c", max_blocks=3), chunks[1]]
        case["meta"]["broadcast"] = True
    if layer == "planner":
        case["merge"] = bool(tape.chance("gen.merge", 0.5))
        # line-level pre-emption between the planner's thread-pool jobs (all planner runs in thorough, a quarter in quick)
        case["preempt"] = bool(tier == "thorough" or many or tape.chance("gen.preempt", 0.25))
        case["expected"] = tape.choice("gen.expected", ["none", "exact", "bigger"])
        case["extra_lead_chunks"] = None
    else:
        nrow = tape.randint("gen.rows", 1, 2)
        case["rows"] = nrow
        case["row_chunks"] = [1] * nrow if tape.chance("gen.rowchunk", 0.5) else [nrow]
        case["func"] = tape.choice("gen.func", ["sum", "sum", "count", "nansum"])
        case["method"] = tape.choice("gen.method", ["map-reduce", "cohorts", "cohorts", None, "blockwise"])
        if case["method"] == "blockwise":
            # blockwise precondition: sequential runs, chunk boundaries on group boundaries
            c = np.sort(np.where(codes < 0, 0, codes))
            case["codes"] = enc_array(c)
            bounds = [i for i in range(1, total) if c[i] != c[i - 1]]
            keep = [b for b in bounds if tape.chance("gen.bwcut", 0.7)]
            edges = [0] + keep + [total]
            case["chunks"] = [[b - a for a, b in zip(edges[:-1], edges[1:])]]
        case["reindex"] = tape.choice("gen.reindex", [None, None, False, True])
        case["expected"] = tape.choice("gen.expected", ["none", "exact"])
        nb = len(case["chunks"][-1])
        case["knobs"] = swarm_knobs(tape, nb)
        if layer == "conserve":
            case["knobs"]["backend"] = "A"
            f = case["knobs"]["faults"]
            f["dup"] = tape.choice("swarm.dup", [0.0, 0.3, 0.6])
            f["crash"] = tape.choice("swarm.crash", [0.0, 0.03, 0.08])
        else:
            case["knobs"]["backend"] = "A"
            case["knobs"]["optimize"] = False
    return case


def gen_closure2d(tape: Tape, tier: str) -> dict:
    """Labels with two axes (every group inside one block: blockwise-eligible), value array with a chunked
    batch dimension in front: closure and conservation of every output chunk, batch isolation."""
    a = tape.randint("gen.a", 1, 4)
    b = tape.randint("gen.b", 2, 6)
    while a * b > 30:
        b -= 1
    ca = gen_chunks(tape, a, "gen.ca", max_blocks=3)
    cb = gen_chunks(tape, b, "gen.cb", max_blocks=4)
    ea, eb = np.cumsum([0] + ca), np.cumsum([0] + cb)
    codes = np.zeros((a, b), dtype=np.int64)
    g = 0
    for i in range(len(ca)):
        for j in range(len(cb)):
            blk = codes[ea[i]:ea[i + 1], eb[j]:eb[j + 1]]
            k = 1 if blk.size == 1 or tape.chance("gen.one", 0.4) else 2
            blk[...] = g
            if k == 2:
                blk.reshape(-1)[blk.size // 2:] = g + 1
            codes[ea[i]:ea[i + 1], eb[j]:eb[j + 1]] = blk
            g += k
    rows = tape.randint("gen.rows", 2, 3)
    return {
        "kind": "closure2d",
        "codes": enc_array(codes),
        "chunks": [ca, cb],
        "rows": rows,
        "row_chunks": tape.choice("gen.rowchunks", [[1] * rows, [1] * rows, [rows], [rows - 1, 1]]),
        "func": tape.choice("gen.func", ["sum", "sum", "count", "nansum"]),
        "method": tape.choice("gen.method", ["blockwise", "blockwise", None, "cohorts", "map-reduce"]),
        "knobs": {**swarm_knobs(tape, len(cb)), "backend": "A", "optimize": False},
        "meta": {"pattern": "per-block-2d"},
    }


# ---------------------------------------------------------------------------
# layer 1: the planner
# ---------------------------------------------------------------------------


def _blocks_of_labels(codes, chunks):
    """label -> set of flat block indices (C order over the chunk grid)."""
    edges = [np.cumsum([0] + list(c)) for c in chunks]
    grid = [len(c) for c in chunks]
    out: dict[int, set] = {}
    for bidx in itertools.product(*[range(g) for g in grid]):
        sl = tuple(slice(edges[ax][b], edges[ax][b + 1]) for ax, b in enumerate(bidx))
        flat = int(np.ravel_multi_index(bidx, grid))
        for lab in np.unique(codes[sl]):
            if lab >= 0:
                out.setdefault(int(lab), set()).add(flat)
    return out, int(np.prod(grid))


def run_planner(case, tape, ctx):
    import pandas as pd
    from flox.core import find_group_cohorts

    codes = dec_array(case["codes"])
    chunks = [tuple(c) for c in case["chunks"]]
    full = np.broadcast_to(codes, tuple(sum(c) for c in chunks)) if codes.ndim == len(chunks) else codes
    ctx.probe("planner_broadcast_labels", full.shape != codes.shape)
    present, nblocks = _blocks_of_labels(full, chunks)
    if not present:
        raise Skip("no-label-present")
    maxlab = max(present)
    if case["expected"] == "none":
        expected = None
    elif case["expected"] == "exact":
        expected = pd.RangeIndex(maxlab + 1)
    else:
        expected = pd.RangeIndex(maxlab + 1 + 3)
    preempt = bool(case.get("preempt"))
    pool_cm = simulated_planner_pool_preemptive(tape) if preempt else simulated_planner_pool(tape)
    with pool_cm as pst:
        try:
            method, cohorts = find_group_cohorts(codes, chunks, expected_groups=expected, merge=case["merge"])
        except Exception as e:  # noqa: BLE001
            cls, msg, det = classify_exception(e)
            raise Violation(cls, "find_group_cohorts: " + msg, **det)
    ctx.log.add(f"PLANNER {method} ncohorts={len(cohorts)} jobs={pst['jobs']} reordered={pst['reordered']}")
    ctx.probe("planner_threadpool_branch", pst["jobs"] > 0)
    ctx.probe("planner_serial_branch", pst["jobs"] == 0 and nblocks > 1)
    ctx.probe("planner_jobs_reordered", pst["reordered"] > 0)
    ctx.probe("planner_more_jobs_than_pool_workers", pst["jobs"] > (os.cpu_count() or 1) + 4)
    ctx.probe("planner_jobs_preempted_linewise", pst.get("switches", 0) > 0)
    ctx.count("planner_line_steps", pst.get("steps", 0))
    if preempt and pst["jobs"] > 1:
        # the plan must not depend on how the jobs were interleaved: compare with the sequential plan
        with simulated_planner_pool(None) as _:
            m2, c2 = find_group_cohorts(codes, chunks, expected_groups=expected, merge=case["merge"])
        if m2 != method or {tuple(sorted(k)): sorted(v) for k, v in c2.items()} != {tuple(sorted(k)): sorted(v) for k, v in cohorts.items()}:
            raise Violation("cover", f"the plan depends on how the planner's thread-pool jobs interleave: line-level interleaving gave "
                            f"{method} {dict(cohorts)}, sequential execution gives {m2} {dict(c2)}; codes={codes.tolist()} chunks={chunks}",
                            kind="race")
    ctx.probe("planner_prefers_" + {"map-reduce": "mapreduce"}.get(method, method))
    ctx.probe("labels_2d", codes.ndim == 2)
    ctx.nontrivial = nblocks >= 2 and len(present) >= 2
    ctx.cell("planner", case["meta"]["pattern"], codes.ndim, min(nblocks, 8), case["merge"], method, min(len(cohorts), 4), case["expected"])
    if method not in ("blockwise", "cohorts", "map-reduce"):
        raise Violation("cover", f"planner proposed unknown method {method!r}")
    if method == "blockwise":
        multi = {l: sorted(b) for l, b in present.items() if len(b) > 1}
        if multi:
            raise Violation("cover", f"planner proposed 'blockwise' but labels {multi} live in several blocks; "
                            f"codes={codes.tolist()} chunks={chunks}", kind="blockwise-unsound")
    if not cohorts:
        if method == "cohorts":
            raise Violation("cover", "planner prefers 'cohorts' but returned no cohorts")
        return
    seen: dict[int, int] = {}
    for blks, labs in cohorts.items():
        bset = set(int(b) for b in blks)
        if any(b < 0 or b >= nblocks for b in bset):
            raise Violation("cover", f"cohort block set {sorted(bset)} has a block index outside [0,{nblocks})")
        for l in labs:
            l = int(l)
            seen[l] = seen.get(l, 0) + 1
            need = present.get(l, set())
            if not need <= bset:
                raise Violation(
                    "cover",
                    f"cohort {labs} is attached to blocks {sorted(bset)} but label {l} also lives in blocks "
                    f"{sorted(need - bset)}; codes={codes.tolist()} chunks={chunks} merge={case['merge']}",
                    kind="block-missing")
    dup = {l: c for l, c in seen.items() if c > 1}
    if dup:
        raise Violation("exclusive", f"labels {dup} appear in more than one cohort; codes={codes.tolist()} chunks={chunks}")
    lost = sorted(set(present) - set(seen))
    if lost:
        raise Violation("cover", f"present labels {lost} are in no cohort; codes={codes.tolist()} chunks={chunks} "
                        f"merge={case['merge']} method={method}", kind="label-missing")
    nmerged = sum(1 for blks, labs in cohorts.items() if len({frozenset(present.get(int(l), ())) for l in labs}) > 1)
    ctx.probe("planner_merged_by_containment", nmerged > 0)


# ---------------------------------------------------------------------------
# layers 2 and 3: graphs
# ---------------------------------------------------------------------------


def _build(case):
    import dask
    import dask.array as da
    import flox

    codes = dec_array(case["codes"]).reshape(-1)
    n = codes.size
    rows = case["rows"]
    vals = np.array([[(r + 1) * 3**i for i in range(n)] for r in range(rows)], dtype=np.int64)
    labels = codes.astype(np.float64)
    labels[codes < 0] = np.nan
    chunks = (tuple(case["row_chunks"]), tuple(case["chunks"][-1]))
    darr = da.from_array(vals, chunks=chunks, name="simvals-x")
    kwargs = {"func": case["func"]}
    if case["method"] is not None:
        kwargs["method"] = case["method"]
    if case["reindex"] is not None:
        kwargs["reindex"] = case["reindex"]
    present = sorted(set(codes[codes >= 0].tolist()))
    if not present:
        raise Skip("no-label-present")  # degenerate: nothing present, nothing requested (C19's business)
    if case["expected"] == "exact":
        kwargs["expected_groups"] = np.array(present, dtype=np.float64)
        kwargs["fill_value"] = 0
    se = case["knobs"].get("split_every")
    with dask.config.set(split_every=se):
        res, groups = flox.groupby_reduce(darr, labels, **kwargs)
    return vals, labels, res, np.asarray(groups)


def _expected_sum(vals_row, labels, lab, func):
    m = labels == lab
    if func == "count":
        return int(m.sum())
    return int(vals_row[m].sum())


def run_conserve(case, tape, ctx):
    from ..oracle import spy_plan

    try:
        with spy_plan() as plan:
            vals, labels, res, groups = _build(case)
    except Skip:
        raise
    except REFUSALS as e:
        raise Skip(f"refused:{type(e).__name__}")
    except Exception as e:  # noqa: BLE001
        cls, msg, det = classify_exception(e)
        raise Violation(cls, msg, **det)
    nb = len(case["chunks"][-1])
    info = RunInfo()
    try:
        (out,) = exec_sim([res], tape, case["knobs"], ctx, info=info)
    except TaskError as te:
        cls, msg, det = classify_exception(te)
        raise Violation(cls, msg, **det)
    out = np.asarray(out)
    ctx.nontrivial = nb >= 2 and len(groups) >= 2
    ctx.cell("conserve", case["meta"]["pattern"], case["func"], plan.get("method"), plan.get("reindex"), min(nb, 8),
             min(plan.get("ncohorts", 0), 4))
    ctx.probe("conservation_crash", info.stats.get("crash", 0) > 0)
    ctx.probe("conservation_dup", info.stats.get("dup", 0) > 0)
    ctx.probe("cohorts_multi", plan.get("ncohorts", 0) > 1)
    if out.shape != (vals.shape[0], len(groups)):
        raise Violation("multiplicity", f"result shape {out.shape} != {(vals.shape[0], len(groups))}")
    n = vals.shape[1]
    for gi, lab in enumerate(groups.tolist()):
        for r in range(vals.shape[0]):
            want = _expected_sum(vals[r], labels, lab, case["func"])
            got = int(out[r, gi])
            if got != want:
                if case["func"] == "count":
                    detail = f"count {got} != {want}"
                else:
                    digits, x = [], got // (r + 1) if got % (r + 1) == 0 else got
                    for i in range(n):
                        digits.append(x % 3)
                        x //= 3
                    mem = [int(v) for v in (labels == lab)]
                    bad = [i for i in range(n) if digits[i] != mem[i]]
                    detail = f"multiplicity of elements {bad} is {[digits[i] for i in bad]} instead of {[mem[i] for i in bad]}"
                raise Violation(
                    "multiplicity",
                    f"group {lab} row {r} ({case['func']}, plan {plan.get('method')}): {detail}; labels={labels.tolist()} "
                    f"chunks={case['chunks'][-1]} faults fired={ {k: v for k, v in info.stats.items() if k in ('dup', 'crash') and v} }",
                    resolved_method=plan.get("method"))
            ctx.count("sums_checked")


def run_closure(case, tape, ctx):
    from ..oracle import spy_plan

    try:
        with spy_plan() as plan:
            vals, labels, res, groups = _build(case)
    except Skip:
        raise
    except REFUSALS as e:
        raise Skip(f"refused:{type(e).__name__}")
    except Exception as e:  # noqa: BLE001
        cls, msg, det = classify_exception(e)
        raise Violation(cls, msg, **det)
    nb = len(case["chunks"][-1])
    edges = np.cumsum([0] + list(case["chunks"][-1]))
    blk_of = np.searchsorted(edges, np.arange(labels.size), side="right") - 1
    ctx.nontrivial = nb >= 2 and len(groups) >= 2
    ctx.cell("closure", case["meta"]["pattern"], plan.get("method"), plan.get("reindex"), min(nb, 8),
             min(plan.get("ncohorts", 0), 4), len(case["row_chunks"]))
    ctx.probe("closure_" + str(plan.get("method")).replace("map-reduce", "mapreduce"))
    ctx.probe("cohorts_multi", plan.get("ncohorts", 0) > 1)
    if any(isinstance(c, float) and math.isnan(c) for ax in res.chunks for c in ax):
        raise Skip("unknown-chunk-sizes")
    out_idx = list(itertools.product(*[range(len(c)) for c in res.chunks]))
    pick = tape.shuffle("gen.outchunks", out_idx)[: (4 if ctx.tier == "quick" else 12)]
    goff = np.cumsum([0] + list(res.chunks[-1]))
    for oi in pick:
        block = res.blocks[oi]
        info = RunInfo()
        knobs = dict(case["knobs"])
        try:
            (val,) = exec_sim([block], tape, knobs, ctx, info=info)
        except TaskError as te:
            cls, msg, det = classify_exception(te)
            raise Violation(cls, msg, **det)
        loaded = set()
        for k in info.loaded:
            if k.startswith("simvals-x/"):
                loaded.add(tuple(int(x) for x in k.split("/")[1:]))
        labs = groups[goff[oi[-1]] : goff[oi[-1] + 1]]
        need_b = set()
        for lab in labs.tolist():
            need_b |= set(blk_of[labels == lab].tolist())
        need = {(oi[0], int(b)) for b in need_b}
        ctx.log.add(f"CLOSURE out={oi} loaded={sorted(loaded)} need={sorted(need)}")
        if not need <= loaded:
            raise Violation(
                "cover", f"output chunk {oi} (labels {labs.tolist()}, plan {plan.get('method')}) was computed without "
                f"loading value blocks {sorted(need - loaded)} that hold its labels; labels={labels.tolist()} "
                f"chunks={case['chunks'][-1]}", resolved_method=plan.get("method"))
        foreign = {b for b in loaded if b[0] != oi[0]}
        if foreign:
            raise Violation(
                "exclusive", f"output chunk {oi} pulled value blocks {sorted(foreign)} of a different batch slice "
                f"(plan {plan.get('method')})", resolved_method=plan.get("method"))
        # the value of the single chunk must also be right (conservation on the culled graph)
        val = np.asarray(val)
        rows = list(range(sum(case["row_chunks"][: oi[0]]), sum(case["row_chunks"][: oi[0] + 1])))
        for j, lab in enumerate(labs.tolist()):
            for ri, r in enumerate(rows):
                want = _expected_sum(vals[r], labels, lab, case["func"])
                if int(val[ri, j]) != want:
                    raise Violation("multiplicity", f"culled compute of output chunk {oi}: group {lab} row {r} = "
                                    f"{int(val[ri, j])} != {want} (plan {plan.get('method')})", resolved_method=plan.get("method"))
        ctx.count("closures_checked")


def run_closure2d(case, tape, ctx):
    import dask
    import dask.array as da
    import flox

    from ..oracle import spy_plan

    codes = dec_array(case["codes"])
    a, b = codes.shape
    rows = case["rows"]
    n = a * b
    vals = np.array([[(r + 1) * 3**i for i in range(n)] for r in range(rows)], dtype=np.int64).reshape(rows, a, b)
    labels = codes.astype(np.float64)
    chunks = (tuple(case["row_chunks"]), tuple(case["chunks"][0]), tuple(case["chunks"][1]))
    darr = da.from_array(vals, chunks=chunks, name="simvals-x")
    kwargs = {"func": case["func"]}
    if case["method"] is not None:
        kwargs["method"] = case["method"]
    try:
        with dask.config.set(split_every=case["knobs"].get("split_every")), spy_plan() as plan:
            res, groups = flox.groupby_reduce(darr, labels, **kwargs)
    except REFUSALS as e:
        raise Skip(f"refused:{type(e).__name__}")
    except Exception as e:  # noqa: BLE001
        cls, msg, det = classify_exception(e)
        raise Violation(cls, msg, **det)
    groups = np.asarray(groups)
    nblocks = len(chunks[1]) * len(chunks[2])
    ctx.nontrivial = nblocks >= 2 and len(chunks[0]) >= 2
    ctx.cell("closure2d", plan.get("method"), len(chunks[0]), len(chunks[1]), len(chunks[2]), case["func"])
    ctx.probe("closure2d_" + str(plan.get("method")).replace("map-reduce", "mapreduce"))
    ctx.probe("closure2d_batch_chunked", len(chunks[0]) >= 2)
    if any(isinstance(c, float) and math.isnan(c) for ax in res.chunks for c in ax):
        raise Skip("unknown-chunk-sizes")
    ea, eb = np.cumsum([0] + list(chunks[1])), np.cumsum([0] + list(chunks[2]))
    er = np.cumsum([0] + list(chunks[0]))

    def blocks_of(lab):
        out = set()
        for i in range(len(chunks[1])):
            for j in range(len(chunks[2])):
                if (labels[ea[i]:ea[i + 1], eb[j]:eb[j + 1]] == lab).any():
                    out.add((i, j))
        return out

    out_idx = list(itertools.product(*[range(len(c)) for c in res.chunks]))
    pick = tape.shuffle("gen.outchunks", out_idx)[: (4 if ctx.tier == "quick" else 12)]
    goff = np.cumsum([0] + list(res.chunks[-1]))
    flatvals = vals.reshape(rows, n)
    flatlab = labels.reshape(-1)
    for oi in pick:
        info = RunInfo()
        try:
            (val,) = exec_sim([res.blocks[oi]], tape, dict(case["knobs"]), ctx, info=info)
        except TaskError as te:
            cls, msg, det = classify_exception(te)
            raise Violation(cls, msg, **det)
        loaded = set()
        for k in info.loaded:
            if k.startswith("simvals-x/"):
                loaded.add(tuple(int(x) for x in k.split("/")[1:]))
        labs = groups[goff[oi[-1]]: goff[oi[-1] + 1]]
        need = set()
        for lab in labs.tolist():
            need |= {(oi[0], i, j) for (i, j) in blocks_of(lab)}
        ctx.log.add(f"CLOSURE2D out={oi} loaded={sorted(loaded)} need={sorted(need)}")
        if not need <= loaded:
            raise Violation("cover", f"output chunk {oi} (labels {labs.tolist()}, plan {plan.get('method')}) was computed without "
                            f"loading value blocks {sorted(need - loaded)} that hold its labels; labels={labels.tolist()} chunks={chunks}",
                            resolved_method=plan.get("method"))
        foreign = {blk for blk in loaded if blk[0] != oi[0]}
        if foreign:
            raise Violation("exclusive", f"output chunk {oi} pulled value blocks {sorted(foreign)} of a different batch slice "
                            f"(plan {plan.get('method')}); labels={labels.tolist()} chunks={chunks}", resolved_method=plan.get("method"))
        val = np.asarray(val).reshape(-1, len(labs))
        rws = list(range(er[oi[0]], er[oi[0] + 1]))
        for jx, lab in enumerate(labs.tolist()):
            for ri, r in enumerate(rws):
                want = _expected_sum(flatvals[r], flatlab, lab, case["func"])
                if int(val[ri, jx]) != want:
                    raise Violation("multiplicity", f"output chunk {oi}: group {lab} batch row {r} = {int(val[ri, jx])} != {want} "
                                    f"(plan {plan.get('method')}): a member was dropped, double-counted or taken from another "
                                    f"batch slice; labels={labels.tolist()} chunks={chunks}", resolved_method=plan.get("method"))
        ctx.count("closures2d_checked")


def run(case, tape: Tape, ctx):
    if case["kind"] == "closure2d":
        return run_closure2d(case, tape, ctx)
    if case["kind"] == "planner":
        return run_planner(case, tape, ctx)
    if case["kind"] == "conserve":
        return run_conserve(case, tape, ctx)
    return run_closure(case, tape, ctx)


def shrink(case):
    if case["kind"] == "closure2d":
        if case.get("rows", 2) > 2:
            c = copy.deepcopy(case)
            c["rows"] = 2
            c["row_chunks"] = [1, 1]
            yield c
        return
    codes = dec_array(case["codes"])
    if codes.ndim == 1:
        ch = case["chunks"][-1]
        if len(ch) > 1:
            for i in range(len(ch) - 1):
                c = copy.deepcopy(case)
                cc = list(ch)
                cc[i : i + 2] = [cc[i] + cc[i + 1]]
                c["chunks"][-1] = cc
                yield c
        for i in range(codes.size - 1, -1, -1):
            if codes.size <= 1:
                break
            c = copy.deepcopy(case)
            c["codes"] = enc_array(np.delete(codes, i))
            ch2 = list(ch)
            pos = 0
            for j, s in enumerate(ch2):
                if pos <= i < pos + s:
                    ch2[j] -= 1
                    break
                pos += s
            ch2 = [s for s in ch2 if s > 0]
            if not ch2:
                continue
            c["chunks"][-1] = ch2
            yield c
    if case.get("rows", 1) > 1:
        c = copy.deepcopy(case)
        c["rows"] = 1
        c["row_chunks"] = [1]
        yield c
    # relabel to fewer groups
    mx = int(codes.max()) if codes.size else 0
    if mx > 0:
        c = copy.deepcopy(case)
        c["codes"] = enc_array(np.where(codes == mx, mx - 1, codes))
        yield c


def simplify_knobs(case):
    if "knobs" in case:
        from ..redcase import simplify_knobs as sk

        yield from sk(case)
