#!/venv/bin/python
"""Sensitivity self-test: a corpus of source mutations of flox, each applied to a scratch
copy (never to /repo) and each paired with the check(s) expected to flag it within a small
budget.  A regression test of the machinery, not part of any verdict.

usage: tools/sensitivity.py [mutant ids...]   (env: SENS_BUDGET_S, default 40; VERIF_PROCS)
"""
from __future__ import annotations

import os
import shutil
import subprocess
import sys
import tempfile
import time

VERIF = os.path.dirname(os.path.dirname(os.path.abspath(__file__)))
REPO = os.environ.get("SIMFLOX_REPO_SRC", "/repo")

# (id, file, old, new, [checks expected to flag it], description)
MUTANTS = [
    ("m01", "flox/core.py", "        idx = flat.copy()\n", "        idx = flat\n", ["C13"],
     "drop the defensive copy before writing the missing-label sentinel (writes into the label block)"),
    ("m02", "flox/aggregations.py", '    chunk="nanlen",\n    combine="sum",\n', '    chunk="nanlen",\n    combine="max",\n', ["C02", "C04"],
     "count combines partial counts with max instead of sum"),
    ("m03", "flox/aggregations.py",
     '    chunk="nanmax",\n    combine="nanmax",\n    fill_value=dtypes.NINF,', '    chunk="nanmax",\n    combine="nanmax",\n    fill_value=0,', ["C04", "C02"],
     "nanmax intermediate fill 0 instead of -inf (not neutral for negative data)"),
    ("m04", "flox/dask_array_ops.py", 'newname = name + f"-{block_index}-partial-{level}"', 'newname = name + f"-partial-{level}"', ["C03", "C02"],
     "cohort tree partial names no longer carry the cohort index (key clash between cohorts at depth >= 2)"),
    ("m05", "flox/dask_array_ops.py", "    parts = [list(partition_all(split_every.get(i, 1), range(n))) for (i, n) in enumerate(numblocks)]",
     "    parts = [list(partition_all(split_every.get(i, 1), range(n - 1 if (i in split_every and n > 2 * split_every[i]) else n))) for (i, n) in enumerate(numblocks)]",
     ["C03", "C09", "C02"], "cohort tree drops the last block when a level has more than two partitions"),
    ("m06", "flox/core.py", '        results["intermediates"][1] = idx[newidx]\n', '        results["intermediates"][1] = newidx[-1]\n', ["C06"],
     "arg-reductions return block-local indices instead of global ones"),
    ("m07", "flox/dask_array_ops.py", "    func = partial(combine or aggregate, axis=axis)\n", "    func = partial(aggregate, axis=axis)\n", ["C03", "C02"],
     "cohort tree finalises at inner levels"),
    ("m08", "flox/core.py", "        chunk = tuple(set(itertools.chain(*allchunks)))\n",
     "        chunk = tuple(set(itertools.chain(*allchunks)))\n        if len(chunk) > 3 and len(cohort) > 1:\n            chunk = chunk[:-1]\n", ["C09"],
     "merged cohorts forget one block"),
    ("m09", "flox/core.py", "    bys: T_Bys = tuple(np.asarray(b) if not is_duck_array(b) else b for b in by)\n    nby = len(bys)\n    by_is_dask = tuple(is_duck_dask_array(b) for b in bys)\n    any_by_dask = any(by_is_dask)\n    provided_expected",
     "    bys: T_Bys = tuple(np.asarray(b) if not is_duck_array(b) else b for b in by)\n    nby = len(bys)\n    by_is_dask = tuple(is_duck_dask_array(b) for b in bys)\n    any_by_dask = any(by_is_dask)\n    if any_by_dask and expected_groups is not None and method == 'cohorts':\n        bys = tuple(np.asarray(b) for b in bys)\n        by_is_dask = (False,) * nby\n        any_by_dask = False\n    provided_expected",
     ["C12"], "dask labels are evaluated during graph construction to enable cohorts"),
    ("m10", "flox/aggregations.py", "            agg_ = copy.deepcopy(AGGREGATIONS[func])\n", "            agg_ = copy.copy(AGGREGATIONS[func])\n", ["C14"],
     "shallow copy of the blueprint: per-call specialisation leaks into the registry"),
    ("m11", "flox/cache.py", "    memoize = partial(cache.memoize, key=dask.base.tokenize)\n",
     "    memoize = partial(cache.memoize, key=lambda args, kwargs: dask.base.tokenize(args[0]))\n", ["C14"],
     "memoised chunk planner keyed on the chunks only (served for different labels)"),
    ("m12", "flox/core.py", "                result = result[..., sorted_idx]\n                groups = (groups[0][sorted_idx],)\n",
     "                groups = (groups[0][sorted_idx],)\n", ["C16", "C02"],
     "post-hoc sort of cohort outputs permutes the labels but not the values"),
    ("m13", "flox/core.py", '        if nax != by_.ndim and method in ["blockwise", "cohorts"]:\n            raise NotImplementedError(',
     '        if nax != by_.ndim and method in ["blockwise", "cohorts"]:\n            raise AssertionError(', ["C19"],
     "a refusal becomes an assertion"),
    ("m14", "flox/aggregations.py", "    lasts = concatenate([left, result]).last()\n", "    lasts = result.last()\n", ["C10"],
     "scan state forgets groups absent from the right block"),
    ("m15", "flox/core.py", "        count_mask = counts < min_count\n", "        count_mask = counts <= min_count\n", ["C05"],
     "min_count mask off by one"),
    ("m16", "flox/core.py", '    finalized[agg.name] = finalized[agg.name].astype(agg.dtype["final"], copy=False)\n    return finalized\n', "    return finalized\n", ["C11"],
     "final dtype cast dropped (dtype now depends on the plan)"),
    ("m17", "flox/core.py", '    name = "groupby-cohort-" + tokenize(array, index, reindexer)\n', '    name = "groupby-cohort-" + tokenize(array, index)\n', ["C19", "C02"],
     "cohort subset layers named without their reindexer (the defect fixed in a773b57)"),
    ("m18", "flox/core.py", '        for v, f in zip(x["intermediates"], agg.fill_value["intermediate"])\n', '        for v, f in zip(x["intermediates"], (0,) * len(x["intermediates"]))\n', ["C04", "C02"],
     "combine-time reindexing fills with 0 instead of the aggregation's neutral element"),
    ("m19", "flox/aggregations.py", "            self.finalize_kwargs,\n            self.min_count,\n", "", ["C14"],
     "token no longer covers finalize_kwargs / min_count (the defect fixed in a96b67a)"),
    ("m21", "flox/xarray.py", "    obj = obj.copy(deep=True)\n\n    if isinstance(obj, xr.Dataset):", "    if isinstance(obj, xr.Dataset):", ["C14"],
     "xarray rechunk helpers rechunk the caller's Dataset in place"),
    ("m22", "flox/aggregate_flox.py",
     "    result = func(group_idx, np.where(isnull(array), fillna, array), *args, **kwargs)\n",
     "    mask = isnull(array)\n    if mask.any() and array.flags.writeable and array.dtype.kind == 'f':\n        array[mask] = fillna  # avoid the copy np.where makes\n        result = func(group_idx, array, *args, **kwargs)\n        array[mask] = np.nan\n    else:\n        result = func(group_idx, np.where(isnull(array), fillna, array), *args, **kwargs)\n",
     ["C13"], "NaN substitution done in place and undone afterwards: a transient write into the input block"),
    ("m23", "flox/core.py",
     "            futures = [\n                executor.submit(chunk_unique, labels, slicer, nlabels)\n",
     "            shared = np.empty((nlabels + 1,), dtype=bool)  # allocate the scratch buffer once\n            futures = [\n                executor.submit(chunk_unique, labels, slicer, nlabels, shared)\n",
     ["C09"], "planner thread-pool jobs share one scratch buffer (a data race only an interleaving inside the jobs exposes)"),
    ("m24", "flox/core.py", "        dtype=agg.dtype,\n        fill_value=agg.identity,\n", "        dtype=inp.array.dtype,\n        fill_value=agg.identity,\n", ["C10"],
     "scan block totals accumulated in the input width again (the defect fixed in a13d81f)"),
    ("m25", "flox/core.py", "    if len(present_labels) == 0:\n", "    if False:\n", ["C19"],
     "planner prefers blockwise when no label is present (the defect fixed in f637c4b)"),
    ("m26", "flox/core.py", "        numblocks = (array if is_duck_dask_array(array) else by_).numblocks\n", "        numblocks = array.numblocks\n", ["C19"],
     "blockwise guards read numblocks of a NumPy array (the defect fixed in 0b6c46b)"),
    ("m20", "flox/core.py", '            groups_in_block = tuple(\n                _unique(by_input[slc]) if sort else pd.unique(by_input[slc].reshape(-1)) for slc in slices\n            )\n',
     '            groups_in_block = tuple(_unique(by_input[slc]) for slc in slices)\n', ["C16", "C05"],
     "blockwise announces sorted labels for sort=False (the defect fixed in e35fe4d)"),
]


def main():
    want = set(sys.argv[1:])
    budget = os.environ.get("SENS_BUDGET_S", "40")
    results = []
    for mid, path, old, new, checks, desc in MUTANTS:
        if want and mid not in want:
            continue
        tmp = tempfile.mkdtemp(prefix=f"simflox-mut-{mid}-")
        try:
            shutil.copytree(os.path.join(REPO, "flox"), os.path.join(tmp, "flox"))
            fp = os.path.join(tmp, path)
            src = open(fp).read()
            if old not in src:
                results.append((mid, "STALE", checks, desc))
                print(f"{mid}: STALE (pattern not found in {path})")
                continue
            open(fp, "w").write(src.replace(old, new, 1))
            caught, missed = [], []
            for chk in checks:
                env = {**os.environ, "SIMFLOX_REPO": tmp, "VERIF_BUDGET_S": budget, "VERIF_DET_RATE": "0",
                       "SIMFLOX_EVIDENCE_DIR": tmp}
                t0 = time.time()
                p = subprocess.run([os.path.join(VERIF, "check"), chk, "--tier", "quick"], capture_output=True, text=True, env=env, cwd=VERIF)
                line = next((l for l in p.stdout.splitlines() if l.startswith("VIOLATION") or l.startswith("HARNESS-ERROR")), "")
                mini = next((l for l in p.stdout.splitlines() if l.startswith("minimised")), "")
                (caught if p.returncode == 1 else missed).append(chk)
                print(f"{mid} {chk}: rc={p.returncode} {time.time() - t0:.0f}s {mini[:160]}")
                sys.stdout.flush()
            results.append((mid, "CAUGHT" if caught else "MISSED", caught, desc))
        finally:
            shutil.rmtree(tmp, ignore_errors=True)
    print("\nsummary:")
    for mid, st, chk, desc in results:
        print(f"  {mid} {st:7s} by {','.join(chk) if chk else '-':12s} {desc}")
    return 0 if all(st == "CAUGHT" for _, st, _, _ in results) else 1


if __name__ == "__main__":
    sys.exit(main())
