"""Process environment that must be fixed before numba / flox are imported.

* numba pinned to one thread on the workqueue layer (forked workers inherit
  JIT-compiled kernels; no OpenMP runtime that dies after fork).
* PYTHONHASHSEED pinned (re-exec if necessary) so that string-hash ordered
  containers inside dependencies iterate identically in every process.
"""
from __future__ import annotations

import os
import sys

os.environ.setdefault("NUMBA_NUM_THREADS", "1")
os.environ.setdefault("NUMBA_THREADING_LAYER", "workqueue")
os.environ.setdefault("OMP_NUM_THREADS", "1")
os.environ.setdefault("OPENBLAS_NUM_THREADS", "1")
os.environ.setdefault("MKL_NUM_THREADS", "1")
# flox is imported from the working tree of /repo (editable install); make that
# explicit so a check can never pick up a stale copy.
REPO = os.environ.get("SIMFLOX_REPO", "/repo")
if REPO not in sys.path:
    sys.path.insert(0, REPO)


def ensure_hashseed(default: str = "0") -> str:
    """Re-exec the interpreter with a fixed PYTHONHASHSEED if none is set."""
    want = os.environ.get("SIMFLOX_HASHSEED", default)
    have = os.environ.get("PYTHONHASHSEED")
    if have != want:
        os.environ["PYTHONHASHSEED"] = want
        os.execv(sys.executable, list(sys.orig_argv))
    return want
