"""Backend A: SimCluster — a simulated multi-worker scheduler for dask graphs.

Executes the *real* task objects of a graph under a seeded schedule with
fault injection (reordering, duplicate execution, worker crashes with
recomputation, cloudpickle of tasks and of transferred results, read-only
buffers, culling by requested keys).  See DESIGN.md §2.3 / A.3.
"""
from __future__ import annotations

import hashlib
import heapq
import queue
import threading

import cloudpickle
import numpy as np

from .canon import keystr, node_kind, sortkey
from .digest import deep_copy_writable, deep_diff, digest, iter_arrays
from .tape import Tape


class Violation(Exception):
    def __init__(self, cls: str, message: str, **details):
        super().__init__(f"{cls}: {message}")
        self.cls = cls
        self.message = message
        self.details = details


class TaskError(Exception):
    """A task raised; carries the canonical key and the original exception."""

    def __init__(self, key, exc: BaseException):
        super().__init__(f"task {keystr(key)} raised {type(exc).__name__}: {exc}")
        self.key = key
        self.exc = exc


DEFAULT_FAULTS = {
    "dup": 0.0,         # probability that a finished task is executed a second time
    "crash": 0.0,       # per-step probability of losing a worker (<= max_crashes per run)
    "ser_task": 0.0,    # probability (per task) that the task spec is cloudpickled before running
    "ser_result": 0.0,  # probability (per remote transfer) of a cloudpickle round trip
    "readonly": 0.0,    # probability that a deserialised value is handed over read-only
    "ro_data": 0.0,     # probability that an input block (DataNode) is handed over read-only
    "spill": 0.0,       # per-step probability that a held value is spilled to "disk" and read back (cloudpickle round trip in place)
}


class EventLog:
    __slots__ = ("lines", "h", "keep")

    def __init__(self, keep: int = 4000):
        self.lines: list[str] = []
        self.h = hashlib.blake2b(digest_size=8)
        self.keep = keep

    def add(self, line: str) -> None:
        self.h.update(line.encode())
        self.h.update(b"\n")
        if len(self.lines) < self.keep:
            self.lines.append(line)

    def digest(self) -> str:
        return self.h.hexdigest()


class _NamedThreadRunner:
    """Runs callables on one parked thread with a chosen name; the caller
    blocks until the call returns, so there is never a scheduling choice."""

    def __init__(self, name: str):
        self.q: queue.Queue = queue.Queue()
        self.r: queue.Queue = queue.Queue()
        self.t = threading.Thread(target=self._loop, name=name, daemon=True)
        self.t.start()

    def _loop(self):
        while True:
            item = self.q.get()
            if item is None:
                return
            fn, args = item
            try:
                self.r.put((True, fn(*args)))
            except BaseException as e:  # noqa: BLE001
                self.r.put((False, e))

    def call(self, fn, *args):
        self.q.put((fn, args))
        ok, v = self.r.get()
        if ok:
            return v
        raise v

    def close(self):
        self.q.put(None)


class SimCluster:
    def __init__(
        self,
        tape: Tape,
        *,
        workers: int = 2,
        faults: dict | None = None,
        max_crashes: int = 3,
        thread_name: str = "MainThread",
        log: EventLog | None = None,
        check_dup: bool = True,
        always_dup: bool = False,
        always_pickle: bool = False,
        crash_after: set | None = None,
        trace_p: float = 0.0,
    ):
        self.trace_p = trace_p
        self.tape = tape
        self.W = max(1, int(workers))
        self.faults = dict(DEFAULT_FAULTS)
        if faults:
            self.faults.update(faults)
        self.max_crashes = max_crashes
        self.thread_name = thread_name
        self.log = log or EventLog()
        self.check_dup = check_dup
        self.always_dup = always_dup
        self.always_pickle = always_pickle
        self.crash_after = set(crash_after or ())  # canonical key strings: crash right after finish
        # statistics / probes
        self.stats = {
            "tasks_run": 0,
            "dup": 0,
            "dup_kept_second": 0,
            "crash": 0,
            "lost_keys": 0,
            "recomputed": 0,
            "recomputed_released": 0,
            "ser_task": 0,
            "ser_result": 0,
            "readonly_handed": 0,
            "readonly_spurious": 0,
            "xfer": 0,
            "released": 0,
            "max_inflight": 0,
            "sim_time": 0,
            "steps": 0,
            "data_loaded": 0,
            "spill": 0,
            "traced_tasks": 0,
            "traced_lines": 0,
        }
        self.loaded_data: list = []  # canonical keys of DataNodes loaded (history for C09)
        self.order: list = []  # finish order (canonical key strings)
        self._runner = None

    # ------------------------------------------------------------------
    def _call(self, fn, *args):
        if self.thread_name == "MainThread":
            return fn(*args)
        if self._runner is None:
            self._runner = _NamedThreadRunner(self.thread_name)
        return self._runner.call(fn, *args)

    def close(self):
        if self._runner is not None:
            self._runner.close()
            self._runner = None

    # ------------------------------------------------------------------
    def get(self, g: dict, keys, data_digests: dict | None = None):
        """Execute canonical graph `g` (task-spec nodes) for `keys`.

        Returns results nested like `keys`.
        """
        try:
            return self._get(g, keys, data_digests)
        finally:
            self.close()

    def _get(self, g, keys, data_digests):
        tape, log, F, st = self.tape, self.log, self.faults, self.stats

        def flat(ks):
            if isinstance(ks, list):
                for x in ks:
                    yield from flat(x)
            else:
                yield ks

        wanted = list(dict.fromkeys(flat(keys)))
        for k in wanted:
            if k not in g:
                raise Violation("stuck", f"requested key {keystr(k)} is not in the graph")
        deps = {k: sorted(g[k].dependencies, key=sortkey) for k in g}
        for k, ds in deps.items():
            for d in ds:
                if d not in g:
                    raise Violation("stuck", f"{keystr(k)} depends on undeclared key {keystr(d)}")
        # closure of wanted
        closure: set = set()
        stack = list(wanted)
        while stack:
            k = stack.pop()
            if k in closure:
                continue
            closure.add(k)
            stack.extend(deps[k])
        dependents: dict = {k: [] for k in closure}
        for k in closure:
            for d in deps[k]:
                dependents[d].append(k)
        for k in dependents:
            dependents[k].sort(key=sortkey)
        order = sorted(closure, key=sortkey)
        wanted_set = set(wanted)

        mem: list[dict] = [dict() for _ in range(self.W)]
        running: dict = {}  # key -> (worker, inputs)
        heap: list = []  # (finish_time, seq, key, worker)
        ever_done: set = set()
        ever_released: set = set()
        pickled_task: dict = {}
        clock = 0
        seq = 0
        crashes_left = self.max_crashes if F["crash"] > 0 or self.crash_after else 0
        ntasks = len(closure)
        bound = 4 * ntasks * (1 + self.max_crashes) + 100
        steps = 0

        def holders(k):
            return [w for w in range(self.W) if k in mem[w]]

        def held(k):
            for w in range(self.W):
                if k in mem[w]:
                    return True
            return False

        def compute_needed():
            """needed(k): wanted, or some dependent is needed and not held."""
            needed = set()
            stack = [k for k in wanted if not held(k)]
            # wanted keys that are held are 'needed' in the sense of 'keep'
            keep = set(k for k in wanted if held(k))
            while stack:
                k = stack.pop()
                if k in needed:
                    continue
                needed.add(k)
                for d in deps[k]:
                    if d not in needed:
                        if held(d):
                            keep.add(d)
                        else:
                            stack.append(d)
            return needed, keep

        def crash(w, why):
            nonlocal crashes_left
            crashes_left -= 1
            st["crash"] += 1
            lost = sorted(mem[w].keys(), key=sortkey)
            log.add(f"{seq} {clock} CRASH - w{w} {why} lost={len(lost)}")
            for k in lost:
                if len(holders(k)) == 1:
                    st["lost_keys"] += 1
                    log.add(f"{seq} {clock} LOST {keystr(k)} w{w}")
            mem[w].clear()
            for k in [k for k, (rw, _) in running.items() if rw == w]:
                del running[k]
            # heap entries for w are dropped lazily

        while True:
            if all(held(k) for k in wanted):
                break
            steps += 1
            if steps > bound:
                missing = [k for k in wanted if not held(k)]
                raise Violation("stuck", f"no progress after {steps} steps; missing {keystr(missing[0])}")
            # --- fault: crash ------------------------------------------------
            if crashes_left > 0 and F["crash"] > 0 and tape.chance("fault.crash", F["crash"]):
                w = tape.draw("fault.crash.worker", self.W)
                if mem[w] or any(rw == w for rw, _ in running.values()):
                    crash(w, "random")
            # --- fault: spill / unspill of a held value -----------------------------
            if F["spill"] > 0 and tape.chance("fault.spill", F["spill"]):
                ws = [w for w in range(self.W) if mem[w]]
                if ws:
                    w = ws[tape.draw("fault.spill.worker", len(ws))]
                    ks = sorted(mem[w], key=sortkey)
                    k = ks[tape.draw("fault.spill.key", len(ks))]
                    try:
                        mem[w][k] = cloudpickle.loads(cloudpickle.dumps(mem[w][k]))
                    except Exception as e:  # noqa: BLE001
                        raise Violation("pickle", f"value of {keystr(k)} does not survive cloudpickle (spill to disk): "
                                        f"{type(e).__name__}: {e}") from e
                    st["spill"] += 1
                    log.add(f"{seq} {clock} SPILL {keystr(k)} w{w}")
            needed, keep = compute_needed()
            # garbage-collect what no one needs any more (scheduler release)
            for w in range(self.W):
                for k in [k for k in mem[w] if k not in keep and k not in needed]:
                    del mem[w][k]
                    if k not in ever_released:
                        ever_released.add(k)
                        st["released"] += 1
            ready = [
                k
                for k in order
                if k in needed and k not in running and not held(k) and all(held(d) for d in deps[k])
            ]
            busy = {rw for rw, _ in running.values()}
            free = [w for w in range(self.W) if w not in busy]
            can_start = bool(ready) and bool(free)
            can_finish = bool(running)
            if not can_start and not can_finish:
                missing = [k for k in wanted if not held(k)]
                raise Violation("stuck", f"deadlock; missing {keystr(missing[0])}")
            if can_start and (not can_finish or tape.chance("sched.start", 0.6)):
                k = ready[tape.draw("sched.pick", len(ready))]
                w = free[tape.draw("sched.worker", len(free))]
                inputs = {}
                for d in deps[k]:
                    if d in mem[w]:
                        inputs[d] = mem[w][d]
                    else:
                        hs = holders(d)
                        src = hs[tape.draw("net.src", len(hs))]
                        v = mem[src][d]
                        st["xfer"] += 1
                        if self.always_pickle or tape.chance("net.ser", F["ser_result"]):
                            v = cloudpickle.loads(cloudpickle.dumps(v))
                            st["ser_result"] += 1
                            if tape.chance("net.ro", F["readonly"]):
                                for a in iter_arrays(v):
                                    if a.flags.owndata or a.base is not None:
                                        try:
                                            a.flags.writeable = False
                                        except ValueError:
                                            pass
                                st["readonly_handed"] += 1
                            log.add(f"{seq} {clock} XFER {keystr(d)} w{src}>w{w} pickled")
                        else:
                            log.add(f"{seq} {clock} XFER {keystr(d)} w{src}>w{w} shared")
                        mem[w][d] = v  # replica
                        inputs[d] = v
                dur = 1 + tape.draw("sched.dur", 4)
                seq += 1
                heapq.heappush(heap, (clock + dur, seq, sortkey(k), k, w))
                running[k] = (w, inputs)
                st["max_inflight"] = max(st["max_inflight"], len(running))
                log.add(f"{seq} {clock} START {keystr(k)} w{w}")
                continue
            # --- finish the earliest in-flight task -----------------------------
            while True:
                ft, s, _, k, w = heapq.heappop(heap)
                if k in running and running[k][0] == w:
                    break
            clock = max(clock, ft)
            w, inputs = running.pop(k)
            node = g[k]
            kind = node_kind(node)
            if kind == "data":
                v = node.value
                st["data_loaded"] += 1
                self.loaded_data.append(k)
                if self.always_pickle or tape.chance("net.ser", F["ser_result"]):
                    v = cloudpickle.loads(cloudpickle.dumps(v))
                    st["ser_result"] += 1
                if tape.chance("net.ro", F["ro_data"]):
                    v = self._readonly_view(v)
                    st["readonly_handed"] += 1
                result = v
                log.add(f"{s} {clock} LOAD {keystr(k)} w{w} {digest(result)}")
            else:
                result = self._execute(k, node, inputs, pickled_task, clock, s, w)
            mem[w][k] = result
            if k in ever_done:
                st["recomputed"] += 1
                if k in ever_released:
                    st["recomputed_released"] += 1
            ever_done.add(k)
            self.order.append(keystr(k))
            if keystr(k) in self.crash_after and crashes_left > 0:
                self.crash_after.discard(keystr(k))
                crash(w, "after-task")
        st["sim_time"] = clock
        st["steps"] = steps
        # input blocks must be what they were at graph construction time
        if data_digests:
            for k, dg in data_digests.items():
                if k in g and digest(g[k].value) != dg:
                    raise Violation(
                        "mutation", f"input block {keystr(k)} was modified during execution", key=keystr(k)
                    )
        log.add(f"{seq} {clock} DONE")

        def pick(ks):
            if isinstance(ks, list):
                return [pick(x) for x in ks]
            for w in range(self.W):
                if ks in mem[w]:
                    return mem[w][ks]
            raise KeyError(ks)

        return pick(keys)

    # ------------------------------------------------------------------
    @staticmethod
    def _readonly_view(v):
        if isinstance(v, np.ndarray):
            r = v.view()
            r.flags.writeable = False
            return r
        return v

    def _guarded(self, node, inputs, k, clock, s, w):
        """Call a task; a write into a read-only buffer is confirmed on private
        writable copies under the digest monitor before it counts as a mutation."""
        st, log = self.stats, self.log
        try:
            if self.trace_p and self.tape.chance("obs.trace", self.trace_p):
                return self._call(self._traced, node, inputs, k)
            return self._call(node, inputs)
        except ValueError as e:
            if "read-only" not in str(e):
                raise TaskError(k, e) from e
            priv = {d: deep_copy_writable(v) for d, v in inputs.items()}
            b2 = {d: digest(v) for d, v in priv.items()}
            try:
                result = self._call(node, priv)
            except Exception as e2:  # noqa: BLE001
                raise TaskError(k, e2) from e2
            for d, v in priv.items():
                if digest(v) != b2[d]:
                    raise Violation(
                        "mutation",
                        f"task {keystr(k)} writes into its input {keystr(d)} (seen through a read-only buffer)",
                        key=keystr(k),
                        input=keystr(d),
                    ) from e
            # no element changed - but did flox itself try to write into its input?  Then the task fails
            # whenever that input arrives as a read-only buffer (as it does after a network transfer).
            import traceback as _tb

            frames = _tb.extract_tb(e.__traceback__)
            if frames and "/flox/" in frames[-1].filename.replace("\\", "/"):
                fr = frames[-1]
                raise Violation(
                    "mutation",
                    f"task {keystr(k)} writes into one of its inputs at {fr.filename.rsplit('/', 1)[-1]}:{fr.lineno} in {fr.name} "
                    f"(`{(fr.line or '').strip()}`): no element changes on writable copies, but the task raises "
                    f"'{e}' when the input is a read-only buffer (as after a network transfer or np.broadcast_to)",
                    key=keystr(k), readonly_attempt=True,
                ) from e
            st["readonly_spurious"] += 1
            log.add(f"{s} {clock} RO-WRITE {keystr(k)} w{w} spurious")
            return result
        except Violation:
            raise
        except Exception as e:  # noqa: BLE001
            raise TaskError(k, e) from e

    def _traced(self, node, inputs, k):
        """Run a task under sys.settrace: at every line executed inside flox the digests of the
        task's input arrays are compared with their values at task start.  A difference that is
        gone again when the task returns is a *transient* write: invisible at task boundaries,
        but visible to any concurrent task that shares the input."""
        import sys

        arrays = [(d, a, digest(a)) for d, v in inputs.items() for a in iter_arrays(v)]
        hit: dict = {}
        st = self.stats
        st["traced_tasks"] += 1

        def local(frame, event, arg):
            if event == "line" and not hit:
                st["traced_lines"] += 1
                for d, a, dg in arrays:
                    if digest(a) != dg:
                        hit.update(input=keystr(d), where=f"{frame.f_code.co_filename.rsplit('/', 1)[-1]}:{frame.f_lineno} in {frame.f_code.co_name}")
                        break
            return local

        def tracer(frame, event, arg):
            if "/flox/" in frame.f_code.co_filename:
                return local
            return None

        old = sys.gettrace()
        sys.settrace(tracer)
        try:
            result = node(inputs)
        finally:
            sys.settrace(old)
        if hit and all(digest(a) == dg for _, a, dg in arrays):
            raise Violation(
                "mutation",
                f"task {keystr(k)} temporarily modifies its input {hit['input']} (restored before it returns, but visible to "
                f"a concurrent task sharing that input) at {hit['where']}",
                key=keystr(k), input=hit["input"], transient=True,
            )
        return result

    def _execute(self, k, node, inputs, pickled_task, clock, s, w):
        tape, log, F, st = self.tape, self.log, self.faults, self.stats
        if kind_is_alias(node):
            # aliases just forward
            return node(inputs)
        if k not in pickled_task:
            if self.always_pickle or tape.chance("fault.ser_task", F["ser_task"]):
                try:
                    node2 = cloudpickle.loads(cloudpickle.dumps(node))
                except Exception as e:  # noqa: BLE001
                    raise Violation(
                        "pickle", f"task {keystr(k)} does not survive cloudpickle: {type(e).__name__}: {e}"
                    ) from e
                st["ser_task"] += 1
                pickled_task[k] = node2
            else:
                pickled_task[k] = node
        node = pickled_task[k]
        before = {d: digest(v) for d, v in inputs.items()}
        st["tasks_run"] += 1
        result = self._guarded(node, inputs, k, clock, s, w)
        for d, v in inputs.items():
            if digest(v) != before[d]:
                raise Violation(
                    "mutation",
                    f"task {keystr(k)} modified its input {keystr(d)}",
                    key=keystr(k),
                    input=keystr(d),
                )
        rd = digest(result)
        log.add(f"{s} {clock} FINISH {keystr(k)} w{w} {rd}")
        if self.always_dup or tape.chance("fault.dup", F["dup"]):
            st["dup"] += 1
            try:
                r2 = self._guarded(node, inputs, k, clock, s, w)
            except (Violation, TaskError) as e:
                if isinstance(e, Violation):
                    raise
                e = e.exc
                raise Violation(
                    "reexec", f"task {keystr(k)} failed on second execution: {type(e).__name__}: {e}", key=keystr(k)
                ) from e
            if self.check_dup:
                d = deep_diff(result, r2)
                if d:
                    raise Violation(
                        "reexec", f"task {keystr(k)} returned a different value when executed again: {d}", key=keystr(k)
                    )
                for dk, v in inputs.items():
                    if digest(v) != before[dk]:
                        raise Violation(
                            "mutation",
                            f"task {keystr(k)} modified its input {keystr(dk)} on re-execution",
                            key=keystr(k),
                            input=keystr(dk),
                        )
            if tape.draw("fault.dup.keep", 2) == 1:
                result = r2
                st["dup_kept_second"] += 1
            log.add(f"{s} {clock} DUP {keystr(k)} w{w} {digest(r2)}")
        if self.always_pickle:
            try:
                r3 = cloudpickle.loads(cloudpickle.dumps(result))
            except Exception as e:  # noqa: BLE001
                raise Violation(
                    "pickle", f"result of {keystr(k)} does not survive cloudpickle: {type(e).__name__}: {e}"
                ) from e
            d = deep_diff(result, r3)
            if d:
                raise Violation("pickle", f"result of {keystr(k)} changed by a cloudpickle round trip: {d}")
        return result


def kind_is_alias(node) -> bool:
    return node_kind(node) == "alias"
