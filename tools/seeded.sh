#!/bin/bash
# tools/seeded.sh <ID> <worktree> <checks...> : verify a seeded change (suite + demo) and run checks against it
# Uses SIMFLOX_REPO=<worktree> (the worktree has the change applied); /repo is never touched.
id=$1; wt=$2; shift 2
cd "$(dirname "$0")/.."
out=/tmp/seeded-$id; mkdir -p $out
echo "== demo with change"; (cd $wt && timeout 600 /venv/bin/python demo.py >/dev/null 2>&1; echo "rc=$?")
echo "== demo without change"; (cd $wt && git stash -q && timeout 600 /venv/bin/python demo.py >/dev/null 2>&1; echo "rc=$?"; git stash pop -q)
if [ -z "$SKIP_SUITE" ]; then echo "== suite with change"; tools/baseline.py $wt -n ${SUITE_N:-8} | tail -3; fi
for c in "$@"; do
  t0=$(date +%s)
  o=$(SIMFLOX_REPO=$wt SIMFLOX_EVIDENCE_DIR=$out VERIF_DET_RATE=0 VERIF_BUDGET_S=${SEED_BUDGET_S:-45} ./check $c --tier quick 2>&1); rc=$?
  echo "== $c rc=$rc $(( $(date +%s) - t0 ))s :: $(echo "$o" | grep -E '^minimised|^HARNESS' | cut -c1-400)"
done
