"""Canonical key names.

dask tokens of flox graphs are not stable between processes (the Aggregation
token covers function objects), so raw key strings may not reach logs, sort
orders or replay files.  Every maximal 32-hex substring is mapped to an
ordinal by first appearance while walking the graph in insertion order, and
the graph handed to the simulated schedulers is *renamed* with that map, so
both backends (and dask.order inside backend B) see process-independent names.
"""
from __future__ import annotations

import hashlib
import re

from dask._task_spec import Alias, DataNode, GraphNode, convert_legacy_graph

# full 32-hex tokens anywhere; and, in names produced by graph fusion, truncated
# tokens / 4-hex name hashes standing alone between dashes
_TOKEN = re.compile(r"[0-9a-f]{32}|(?:(?<=-)|^)[0-9a-f]{4,31}(?=-|$)")


class Canon:
    def __init__(self):
        self.tokens: dict[str, str] = {}

    def _tok(self, m) -> str:
        t = m.group(0)
        c = self.tokens.get(t)
        if c is None:
            c = self.tokens[t] = f"T{len(self.tokens):03d}"
        return c

    def name(self, s: str) -> str:
        return _TOKEN.sub(self._tok, s)

    def key(self, k):
        if isinstance(k, tuple):
            return tuple(self.name(p) if isinstance(p, str) else p for p in k)
        if isinstance(k, str):
            return self.name(k)
        return k


def keystr(k) -> str:
    if isinstance(k, tuple):
        return k[0] + "".join(f"/{p}" for p in k[1:]) if isinstance(k[0], str) else repr(k)
    return str(k)


def sortkey(k):
    """Total order on canonical keys: name, then block index."""
    if isinstance(k, tuple):
        return (str(k[0]), tuple((0, p) if isinstance(p, int) else (1, str(p)) for p in k[1:]))
    return (str(k), ())


def _h(*parts) -> str:
    return hashlib.blake2b(repr(parts).encode(), digest_size=8).hexdigest()


def _token_order(g) -> list[str]:
    """Order the tokens occurring in key names by a structural colour (a few
    rounds of colour refinement over 'token occurs in key', dependencies and
    input-block contents), so that the ordinal a token gets does not depend on
    dict order, on the token's value or on the process."""
    from .digest import digest

    toks_of: dict = {}
    masked: dict = {}
    first_seen: dict[str, int] = {}
    for k in g:
        parts = k if isinstance(k, tuple) else (k,)
        ts = []
        m = []
        for p in parts:
            if isinstance(p, str):
                ts.extend(_TOKEN.findall(p))
                m.append(_TOKEN.sub("#", p))
            else:
                m.append(p)
        toks_of[k] = ts
        masked[k] = repr(m)
        for t in ts:
            first_seen.setdefault(t, len(first_seen))
    if len(first_seen) <= 1:
        return list(first_seen)
    keys_of: dict[str, list] = {t: [] for t in first_seen}
    for k, ts in toks_of.items():
        for t in set(ts):
            keys_of[t].append(k)
    dependents: dict = {k: [] for k in g}
    for k, node in g.items():
        for d in node.dependencies:
            if d in dependents:
                dependents[d].append(k)
    base = {}
    for k, node in g.items():
        kind = "data" if isinstance(node, DataNode) else ("alias" if isinstance(node, Alias) else "task")
        dg = digest(node.value) if kind == "data" else ""
        base[k] = (masked[k], kind, dg)
    colour = {t: _h(sorted(base[k] for k in keys_of[t])) for t in first_seen}
    for _ in range(3):
        new = {}
        for t in first_seen:
            rows = []
            for k in keys_of[t]:
                up = sorted((masked[d], [colour[t2] for t2 in toks_of[d]]) for d in g[k].dependencies if d in toks_of)
                down = sorted((masked[d], [colour[t2] for t2 in toks_of[d]]) for d in dependents[k])
                rows.append((base[k], up, down))
            rows.sort()
            new[t] = _h(colour[t], rows)
        colour = new
    return sorted(first_seen, key=lambda t: (colour[t], first_seen[t]))


def canonical_graph(dsk, keys, canon: Canon | None = None):
    """Convert (legacy) graph to task-spec objects and rename every key.

    Returns (graph, keys, canon, keymap old->new).
    """
    canon = canon or Canon()
    g = dsk.__dask_graph__() if hasattr(dsk, "__dask_graph__") else dsk
    g = convert_legacy_graph(dict(g))
    for t in _token_order(g):
        if t not in canon.tokens:
            canon.tokens[t] = f"T{len(canon.tokens):03d}"
    keymap = {}
    for k in g:
        keymap[k] = canon.key(k)
    if len(set(keymap.values())) != len(keymap):  # pragma: no cover
        raise RuntimeError("canonical renaming is not injective")
    subs = {k: v for k, v in keymap.items() if k != v}
    out = {}
    for k in sorted(g, key=lambda k: sortkey(keymap[k])):
        node = g[k]
        nk = keymap[k]
        if subs:
            node = node.substitute(subs, key=nk)
        out[nk] = node

    def mapkeys(ks):
        if isinstance(ks, list):
            return [mapkeys(x) for x in ks]
        return keymap.get(ks, ks)

    return out, mapkeys(keys), canon, keymap


def node_kind(node: GraphNode) -> str:
    if isinstance(node, DataNode):
        return "data"
    if isinstance(node, Alias):
        return "alias"
    return "task"
