"""Cases: JSON-serialisable descriptions of inputs, calls and knobs, with
builders that turn them into numpy / dask objects, and seeded generators.
"""
from __future__ import annotations

import math

import numpy as np

from .tape import Tape

# ---------------------------------------------------------------------------
# JSON <-> numpy
# ---------------------------------------------------------------------------


def _enc_scalar(x):
    if isinstance(x, (np.datetime64, np.timedelta64)):
        if np.isnat(x):
            return "NaT"
        return int(x.astype("int64"))
    if isinstance(x, (bool, np.bool_)):
        return bool(x)
    if isinstance(x, (int, np.integer)):
        return int(x)
    if isinstance(x, (float, np.floating)):
        x = float(x)
        if x != x:
            return "nan"
        if x == math.inf:
            return "inf"
        if x == -math.inf:
            return "-inf"
        return x
    if isinstance(x, (str, np.str_)):
        return "s:" + str(x)
    if x is None:
        return None
    raise TypeError(type(x))


def _dec_scalar(x, kind):
    if isinstance(x, str):
        if x == "nan":
            return np.nan  # the singleton users pass (a pickle round trip replaces it by an equal but distinct float)
        if x == "inf":
            return math.inf
        if x == "-inf":
            return -math.inf
        if x == "NaT":
            return np.iinfo(np.int64).min
        if x.startswith("s:"):
            return x[2:]
    return x


def enc_array(a: np.ndarray) -> dict:
    a = np.asarray(a)
    flat = [_enc_scalar(x) for x in a.reshape(-1)]
    return {"dtype": a.dtype.str if a.dtype.kind != "O" else "O", "shape": list(a.shape), "data": flat}


def dec_array(d: dict) -> np.ndarray:
    dt = np.dtype(d["dtype"]) if d["dtype"] != "O" else np.dtype(object)
    vals = [_dec_scalar(x, dt.kind) for x in d["data"]]
    if dt.kind in "mM":
        a = np.array(vals, dtype="int64").view(dt)
    elif dt.kind == "O":
        a = np.empty(len(vals), dtype=object)
        a[:] = vals
    else:
        a = np.array(vals, dtype=dt) if vals else np.empty(0, dtype=dt)
    return a.reshape(d["shape"])


def enc_value(v):
    """Encode a kwarg value (scalars, lists, None)."""
    if isinstance(v, dict) and "__interval__" in v:
        return v
    if isinstance(v, np.ndarray):
        return {"__array__": enc_array(v)}
    if isinstance(v, (list, tuple)):
        return [enc_value(x) for x in v]
    if isinstance(v, dict):
        return {k: enc_value(x) for k, x in v.items()}
    if isinstance(v, np.dtype):
        return {"__dtype__": v.str}
    if v is None or isinstance(v, (bool, int, str)) and not isinstance(v, np.generic):
        if isinstance(v, str):
            return "s:" + v
        return v
    return _enc_scalar(v)


def dec_value(v):
    if isinstance(v, dict):
        if "__interval__" in v:
            import pandas as pd

            return pd.IntervalIndex.from_breaks([_dec_scalar(x, None) for x in v["__interval__"]["breaks"]],
                                                closed=v["__interval__"]["closed"])
        if "__array__" in v:
            return dec_array(v["__array__"])
        if "__dtype__" in v:
            return np.dtype(v["__dtype__"])
        return {k: dec_value(x) for k, x in v.items()}
    if isinstance(v, list):
        return [dec_value(x) for x in v]
    return _dec_scalar(v, None)


# ---------------------------------------------------------------------------
# Chunk helpers
# ---------------------------------------------------------------------------


def gen_chunks(tape: Tape, n: int, label: str = "gen.chunks", max_blocks: int = 12, style: str | None = None):
    """A chunk tuple summing to n.  Styles: one, ones, even, random."""
    if n == 0:
        return [0]
    style = style or tape.choice(label + ".style", ["one", "ones", "even", "random", "random", "random"])
    if style == "one" or n == 1:
        return [n]
    if style == "ones" and n <= max_blocks:
        return [1] * n
    if style == "even":
        c = tape.randint(label + ".size", max(1, -(-n // max_blocks)), max(1, n - 1))
        out = [c] * (n // c)
        if n % c:
            out.append(n % c)
        return out
    nb = tape.randint(label + ".nb", 2, min(max_blocks, n))
    # choose nb-1 distinct cut points
    cuts = sorted(tape.shuffle(label + ".cuts", range(1, n))[: nb - 1])
    edges = [0] + cuts + [n]
    return [b - a for a, b in zip(edges[:-1], edges[1:])]


def merge_chunks(chunks, i):
    c = list(chunks)
    c[i : i + 2] = [c[i] + c[i + 1]]
    return c


# ---------------------------------------------------------------------------
# Value alphabets
# ---------------------------------------------------------------------------

EXACT_FLOAT = [-3.0, -2.0, -1.0, 0.0, 1.0, 2.0, 3.0, 0.5, -0.5, 0.25, -0.25]
EXACT_INT = [-3, -2, -1, 0, 1, 2, 3]
PROD_FLOAT = [1.0, -1.0, 2.0, -2.0, 0.5, -0.5, 0.0]
PROD_INT = [1, -1, 2, -2, 0, 1, 1]


def gen_values(
    tape: Tape,
    n: int,
    *,
    dtype: str = "f8",
    nan_p: float = 0.0,
    inf_p: float = 0.0,
    alphabet=None,
    label: str = "gen.val",
):
    dt = np.dtype(dtype)
    if alphabet is None:
        if dt.kind == "f":
            alphabet = EXACT_FLOAT
        elif dt.kind == "u":
            alphabet = [0, 1, 2, 3, 5]
        elif dt.kind == "b":
            alphabet = [False, True]
        else:
            alphabet = EXACT_INT
    out = []
    for _ in range(n):
        if dt.kind == "f" and nan_p and tape.chance(label + ".nan", nan_p):
            out.append(math.nan)
        elif dt.kind == "f" and inf_p and tape.chance(label + ".inf", inf_p):
            out.append(tape.choice(label + ".infs", [math.inf, -math.inf]))
        else:
            out.append(tape.choice(label, alphabet))
    return np.array(out, dtype=dt)


# ---------------------------------------------------------------------------
# Label patterns
# ---------------------------------------------------------------------------


def gen_codes(tape: Tape, n: int, ngroups: int, pattern: str | None = None, label: str = "gen.lab"):
    """Integer codes in [0, ngroups) of length n following a pattern."""
    pattern = pattern or tape.choice(
        label + ".pattern", ["random", "random", "periodic", "runs", "sorted", "localized", "interleave2"]
    )
    if ngroups <= 1:
        return np.zeros(n, dtype=np.int64), pattern
    if pattern == "random":
        codes = [tape.draw(label, ngroups) for _ in range(n)]
    elif pattern == "periodic":
        off = tape.draw(label + ".off", ngroups)
        codes = [(i + off) % ngroups for i in range(n)]
    elif pattern in ("runs", "sorted"):
        # sequential runs of random lengths (blockwise friendly); 'runs' may repeat labels later
        codes = []
        g = 0
        while len(codes) < n:
            ln = tape.randint(label + ".run", 1, max(1, 2 * n // ngroups))
            codes.extend([g % ngroups if pattern == "runs" else min(g, ngroups - 1)] * ln)
            g += 1
        codes = codes[:n]
    elif pattern == "localized":
        # each group lives in a window; neighbouring groups overlap a little
        codes = []
        for i in range(n):
            centre = i * ngroups // max(n, 1)
            codes.append(min(ngroups - 1, max(0, centre + tape.draw(label + ".jit", 3) - 1)))
    else:  # interleave2: two groups alternate in first half, others in second
        codes = []
        for i in range(n):
            if i < n // 2:
                codes.append(i % 2)
            else:
                codes.append(2 + (i % max(1, ngroups - 2)) if ngroups > 2 else i % 2)
    return np.array(codes, dtype=np.int64), pattern


def labels_from_codes(tape: Tape, codes: np.ndarray, ngroups: int, kind: str, *, missing_p: float = 0.0, label="gen.lab"):
    """Map integer codes to label values of a given kind; optionally make some missing."""
    codes = np.asarray(codes)
    if kind == "int":
        base = tape.choice(label + ".base", [0, 0, 1, -2, 10])
        step = tape.choice(label + ".step", [1, 1, 2, 5])
        vals = np.array([base + step * g for g in range(ngroups)], dtype=np.int64)
        # optionally shuffle so codes order != label order
        if tape.chance(label + ".perm", 0.4):
            vals = np.array(tape.shuffle(label + ".permv", vals.tolist()), dtype=np.int64)
        out = vals[codes]
        uniq = vals
    elif kind == "float":
        vals = np.array([0.5 + 1.25 * g for g in range(ngroups)], dtype=np.float64)
        if tape.chance(label + ".perm", 0.4):
            vals = np.array(tape.shuffle(label + ".permv", vals.tolist()), dtype=np.float64)
        out = vals[codes].astype(np.float64)
        if missing_p:
            for i in range(out.size):
                if tape.chance(label + ".miss", missing_p):
                    out.reshape(-1)[i] = np.nan
        uniq = vals
    elif kind == "str":
        names = ["a", "bb", "c", "dd", "e", "ff", "g", "hh"]
        vals = np.array(tape.shuffle(label + ".permv", names)[:ngroups], dtype=object)
        out = np.empty(codes.shape, dtype=object)
        out.reshape(-1)[:] = [vals[c] for c in codes.reshape(-1)]
        uniq = vals
    elif kind == "datetime":
        base = np.datetime64("2001-01-01", "ns").astype("int64")
        day = 86400 * 10**9
        vals = np.array([base + g * day for g in range(ngroups)], dtype="int64")
        out = vals[codes].view("M8[ns]") if False else vals[codes].astype("int64").view("M8[ns]")
        if missing_p:
            flat = out.reshape(-1)
            for i in range(flat.size):
                if tape.chance(label + ".miss", missing_p):
                    flat[i] = np.datetime64("NaT")
        uniq = vals.view("M8[ns]")
    else:
        raise ValueError(kind)
    # never make *every* label missing: with nothing requested either that is a degenerate
    # call (flox raises IndexError even eagerly) which only C19 is concerned with
    flat = out.reshape(-1)
    if flat.size and kind in ("float", "datetime"):
        miss = np.isnan(flat) if kind == "float" else np.isnat(flat)
        if miss.all():
            flat[0] = uniq[codes.reshape(-1)[0]]
    return out, uniq


def tree_depth(nblocks: int, split_every: int) -> int:
    if nblocks <= 1:
        return 1
    return max(1, math.ceil(math.log(nblocks, split_every) - 1e-12))
