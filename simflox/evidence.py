"""Evidence files: written from counters kept by the machinery itself."""
from __future__ import annotations

import json
import os

VERIF = os.path.dirname(os.path.dirname(os.path.abspath(__file__)))


def write_evidence(check, prop, tier, seed, tot, wall, first, last, budget_s, procs, *, n_viol, harness_error, zero_probes):
    from .runner import COMPONENTS

    runs = tot["runs"]
    cov = {
        "evaluations": runs,
        "distinct_nontrivial": len(tot["nt_cells"]),
        "rule": check.RULE,
        "samples": tot["samples"][:4] or [{"note": "no non-trivial sample was recorded"}],
        "nontrivial_runs": tot["nontrivial"],
        "distinct_cells_all": len(tot["cells"]),
        "runs_per_hour": round(runs / wall * 3600) if wall > 0 else 0,
        "seeds": {"verif_seed": seed, "first_run_index": first, "last_run_index": last,
                  "derivation": "run_seed = blake2b(VERIF_SEED, property, run_index)"},
        "simulated_time_units": tot["sim_time"],
        "graph_executions": tot["executions"],
        "faults_fired": dict(sorted(tot["faults"].items())),
        "distinct_interleavings": len(tot["interleavings"]),
        "interleaving_measure": "distinct blake2b digests of the canonical event log (starts, finishes, transfers, faults, result digests) of a run",
        "probes": dict(sorted(tot["probes"].items())),
        "probes_never_hit": zero_probes,
        "skipped_ambiguous": dict(sorted(tot["skips"].items())),
        "sub_counts": dict(sorted(tot["sub"].items())),
        "known_findings_hit": dict(sorted(tot["known_hit"].items())),
        "determinism_reruns": tot["det_reruns"],
        "fault_free_runs": tot["fault_free_runs"],
        "faulted_runs": tot["faulted_runs"],
        "components": COMPONENTS,
        "tier_budget_s": budget_s,
        "processes": procs,
        "hashseed": os.environ.get("PYTHONHASHSEED"),
    }
    assumptions = list(getattr(check, "ASSUMPTIONS", []))
    if harness_error:
        assumptions.insert(0, "HARNESS ERROR in this run - its result is not to be trusted: " + harness_error[:500])
    doc = {
        "property_id": prop,
        "tier": tier,
        "seed": int(seed),
        "level": check.LEVEL,
        "coverage": cov,
        "assumptions": assumptions,
        "wall_s": round(wall, 2),
        "violations": int(n_viol),
    }
    # a sensitivity / seeded-mutant run must not overwrite the evidence of the real tree
    edir = os.environ.get("SIMFLOX_EVIDENCE_DIR") or os.path.join(VERIF, "evidence")
    os.makedirs(edir, exist_ok=True)
    path = os.path.join(edir, f"{prop}.json")
    tmp = path + ".tmp"
    with open(tmp, "w") as f:
        json.dump(doc, f, indent=1, sort_keys=False, default=str)
    os.replace(tmp, path)
    return path
