"""C14 — no side effects; results independent of call history and of co-computed results."""
from __future__ import annotations

import copy
import math

import numpy as np

from ..cases import dec_array, dec_value, enc_array, enc_value, gen_chunks, gen_codes, gen_values
from ..cluster import TaskError, Violation
from ..digest import deep_diff, digest
from ..redcase import exec_sim, swarm_knobs
from ..runner import REFUSALS, Skip, classify_exception
from ..seams import SimClock, simulated_cache_clock
from ..simexec import RunInfo, sim_compute
from ..tape import Tape

ID = "C14"
LEVEL = "exploration"
BUDGET = {"quick": 45, "thorough": 900}
RULE = (
    "One run = one seeded history of 3-8 operations over small pools (2-3 value arrays of which two differ in one "
    "element, 2 label arrays, one user Aggregation object reused across calls): API calls (groupby_reduce, groupby_scan, "
    "xarray_reduce on a DataArray and on a two-variable Dataset, rechunk_for_blockwise / rechunk_for_cohorts in their array and xarray flavours), computes of "
    "one lazy handle or of 2-3 handles TOGETHER through dask.compute on the simulated cluster in both argument orders, "
    "and environment faults between calls (cachey's clock frozen / running backwards / jumping, flox.cache.cache "
    "cleared or shrunk, get_parts cache cleared). Co-computed handles are a base call plus variants differing in exactly "
    "one ingredient (value array, labels, reduction, ddof, min_count, fill_value, dtype, method, engine, sort, reindex, "
    "chunking, expected_groups). Invariants after every op: digests of every argument object (arrays, labels, expected_groups, the "
    "Aggregation's state) and a structural snapshot of the AGGREGATIONS registry are unchanged. History oracle: each "
    "call's result equals the result of the same call executed FIRST in a pristine process (forked from a zygote that "
    "imported flox but never called it). Co-compute oracle: every member of a merged compute equals the same handle "
    "computed alone. Non-trivial iff the history has >=2 calls and a merged compute or an environment fault. "
    "distinct_nontrivial = distinct (sorted api multiset, varied ingredient, #merged, fault kinds) cells."
)
ASSUMPTIONS = [
    "the pristine process is forked from a zygote that imported flox and JIT-warmed numbagg directly but never called flox",
    "sampled histories, not all finite sequences",
]
PROBES = ["labels_2d_and_transposed_view", "xarray_rechunk_helper", "reindex_object_reused", "eager_call", "merged_pair", "merged_triple", "merged_dataset_variables", "clock_fault", "cache_cleared", "cache_resized",
          "parts_cache_cleared", "memo_hit_after_same_call", "custom_aggregation_reused", "rechunk_helper", "scan",
          "ingredient_array", "ingredient_labels", "ingredient_func", "ingredient_ddof", "ingredient_min_count",
          "ingredient_fill_value", "ingredient_dtype", "ingredient_method", "ingredient_engine", "ingredient_sort",
          "ingredient_reindex", "ingredient_chunks", "ingredient_expected_groups"]

_ZYGOTE = None
PRISTINE_REPLAY = True  # shrinking and replay attempts run in a process forked from the zygote
_REGISTRY0 = None


def warmup():
    """Start the pristine-process zygote before this process ever calls flox."""
    global _ZYGOTE, _REGISTRY0
    if _REGISTRY0 is None:
        from flox.aggregations import AGGREGATIONS

        _REGISTRY0 = copy.deepcopy(AGGREGATIONS)
    if _ZYGOTE is None:
        from .. import zygote as z

        _ZYGOTE = z.CURRENT if z.CURRENT is not None else z.Zygote("simflox.checks.c14", "zygote_dispatch").start()


def _zy():
    global _ZYGOTE
    if _ZYGOTE is None:
        from .. import zygote as z

        _ZYGOTE = z.CURRENT
    return _ZYGOTE


def zygote_dispatch(req):
    """Runs in a fresh grandchild of the zygote."""
    if req[0] == "eval":
        return pristine_eval(req[1:])
    if req[0] == "run":
        import sys

        from ..runner import execute_one

        _, case, tape_rec, tier = req
        t = Tape(replay=tape_rec)
        verdict, ctx = execute_one(sys.modules[__name__], case, t, tier, limit_s=90)
        return {"verdict": verdict, "digest": ctx.log.digest(), "lines": ctx.log.lines[:400], "rec": t.rec}
    raise ValueError(req[0])


def pristine_execute(case, tape_rec, tier):
    """Used by the runner for shrink / replay attempts: the whole history in a pristine process."""
    resp = _zy().request(("run", case, tape_rec, tier), timeout=180)
    if resp[0] != "ok":
        raise RuntimeError(f"pristine run failed: {resp[1:]}")
    return resp[1]


def _reset_known_state():
    """Make runs independent of each other as far as flox's known process-global state goes
    (the pristine-process oracle is what catches state we do not know about)."""
    import flox.cache
    from flox import dask_array_ops
    from flox.aggregations import AGGREGATIONS

    if hasattr(flox.cache.cache, "clear"):
        flox.cache.cache.clear()
        flox.cache.cache.resize(1e6)
    if hasattr(dask_array_ops.get_parts, "cache_clear"):
        dask_array_ops.get_parts.cache_clear()
    if _REGISTRY0 is not None:
        AGGREGATIONS.clear()
        AGGREGATIONS.update(copy.deepcopy(_REGISTRY0))


# ---------------------------------------------------------------------------
# generation
# ---------------------------------------------------------------------------

INGREDIENTS = ["array", "labels", "func", "ddof", "min_count", "fill_value", "dtype", "method", "engine", "sort", "reindex", "chunks",
               "expected_groups"]


def gen(tape: Tape, tier: str) -> dict:
    n = tape.randint("gen.n", 4, 16)
    ngroups = tape.randint("gen.ngroups", 2, min(4, n))
    a0 = gen_values(tape, n, dtype="f8", nan_p=tape.choice("gen.nanp", [0.0, 0.15]))
    a1 = a0.copy()
    i = tape.draw("gen.diffpos", n)
    a1[i] = 7.0 if a0[i] != 7.0 else -7.0
    a2 = gen_values(tape, n, dtype="i8")
    arrays = [a0, a1, a2]
    codes0, pat0 = gen_codes(tape, n, ngroups)
    codes1, pat1 = gen_codes(tape, n, ngroups)
    if (codes0 == codes1).all():
        codes1 = codes1[::-1].copy()
    sorted_codes = np.sort(codes0)
    # a second sequential labelling with different run boundaries (same chunks, other labels: memo keys must differ)
    cuts = sorted(tape.shuffle("gen.runs2", range(1, n))[: ngroups - 1])
    sorted2 = np.zeros(n, dtype="i8")
    for c in cuts:
        sorted2[c:] += 1
    if (sorted2 == sorted_codes).all():
        sorted2 = (sorted2.max() - sorted2)[::-1].copy()
    labels = [codes0.astype("i8"), codes1.astype("i8"), sorted_codes.astype("i8"), sorted2.astype("i8")]
    # 2-D square labels and their transposed (non-contiguous) view: arrays[3], labels[4], labels[5]
    k2 = tape.randint("gen.k2", 2, 3)
    m2 = np.array([[tape.draw("gen.m2", 3) for _ in range(k2)] for _ in range(k2)], dtype="i8")
    if (m2 == m2.T).all():
        m2[0, k2 - 1] = (m2[k2 - 1, 0] + 1) % 3
    a2d = gen_values(tape, k2 * k2, dtype="f8").reshape(k2, k2)
    arrays.append(a2d)
    labels.append(m2)
    # arrays[4]: bool, arrays[5]: datetime64 (scans view these as int8 / int64: the caller's arrays must stay untouched)
    arrays.append(gen_values(tape, n, dtype="b1"))
    arrays.append((gen_values(tape, n, dtype="i8", alphabet=[0, 1, 2, 3, 5]) * (86400 * 10**9)).astype("int64").view("M8[ns]"))
    base_chunks = gen_chunks(tape, n, max_blocks=5)
    nops = tape.randint("gen.nops", 3, 8)
    ops = []
    handles = []  # indices of call ops that produce lazy reduce/scan handles

    def base_call():
        func = tape.choice("gen.func", ["sum", "nansum", "mean", "nanmean", "var", "nanvar", "max", "nanmax", "count", "argmax",
                                        "nanargmax", "nanfirst", "prod", {"custom": "range"}, {"custom": "scaled"}])
        kw = {"func": func}
        if tape.chance("gen.exp", 0.5):
            kw["expected_groups"] = np.arange(ngroups + 1) if tape.chance("gen.exp.sorted", 0.7) else np.arange(ngroups + 1)[::-1].copy()
            kw["fill_value"] = -1 if isinstance(func, str) and "arg" in func else 0
            kw["__eg_container__"] = tape.choice("gen.exp.container", ["ndarray", "list", "index"])
            if tape.chance("gen.exp.nosort", 0.3):
                kw["sort"] = False
        method = tape.choice("gen.method", [None, "map-reduce", "cohorts"])
        if method:
            kw["method"] = method
        if tape.chance("gen.reindexobj", 0.3):
            # a ReindexStrategy OBJECT (reused across the calls of this history that name the same strategy)
            kw["reindex"] = {"__reindex__": {"blockwise": tape.choice("gen.reindexobj.b", [None, None, False])}}
        call = {"op": "call", "api": "groupby_reduce", "arr": tape.draw("gen.arr", 2), "lab": tape.draw("gen.lab", 2),
                "chunks": [base_chunks], "kwargs": enc_value(kw)}
        if tape.chance("gen.eagercall", 0.25):
            call["eager"] = True
        return call

    def variant(call, ing):
        c = copy.deepcopy(call)
        kw = dec_value(c["kwargs"])
        f = kw["func"]
        if ing == "array":
            c["arr"] = 1 - c["arr"] if c["arr"] in (0, 1) else 0
        elif ing == "labels":
            c["lab"] = 1 - c["lab"] if c["lab"] in (0, 1) else 0
        elif ing == "func":
            swap = {"sum": "nansum", "nansum": "sum", "mean": "nanmean", "nanmean": "mean", "var": "std", "nanvar": "nanstd",
                    "max": "min", "nanmax": "nanmin", "count": "sum", "argmax": "argmin", "nanargmax": "nanargmin",
                    "nanfirst": "nanlast", "prod": "sum"}
            kw["func"] = swap.get(f, "sum") if isinstance(f, str) else "sum"
        elif ing == "ddof":
            if not (isinstance(f, str) and ("var" in f or "std" in f)):
                kw["func"] = "nanvar"
            kw["finalize_kwargs"] = {"ddof": 1}
            ckw = dec_value(call["kwargs"])
            ckw["func"] = kw["func"]
            call["kwargs"] = enc_value(ckw)
        elif ing == "min_count":
            kw["min_count"] = 3
            kw.setdefault("fill_value", -1 if isinstance(f, str) and "arg" in f else 0)
            ckw = dec_value(call["kwargs"])
            ckw["min_count"] = 1
            ckw.setdefault("fill_value", kw["fill_value"])
            call["kwargs"] = enc_value(ckw)
        elif ing == "fill_value":
            ckw = dec_value(call["kwargs"])
            for k in (kw, ckw):
                k["expected_groups"] = np.arange(ngroups + 2)
            ckw["fill_value"] = 0 if not (isinstance(f, str) and "arg" in f) else -1
            kw["fill_value"] = -5 if not (isinstance(f, str) and "arg" in f) else -2
            call["kwargs"] = enc_value(ckw)
        elif ing == "expected_groups":
            # the same labels requested, plus trailing ones that do not occur
            ckw = dec_value(call["kwargs"])
            ckw["expected_groups"] = np.arange(ngroups)
            ckw.setdefault("fill_value", -1 if isinstance(f, str) and "arg" in f else 0)
            call["kwargs"] = enc_value(ckw)
            kw = dict(ckw)
            kw["expected_groups"] = np.arange(ngroups + 1 + tape.draw("gen.exp.extra", 2))
        elif ing == "dtype":
            if isinstance(f, str) and ("arg" in f or f == "count"):
                kw["func"] = "nansum"
                ckw = dec_value(call["kwargs"])
                ckw["func"] = "nansum"
                call["kwargs"] = enc_value(ckw)
            kw["dtype"] = "f4"
        elif ing == "method":
            kw["method"] = "cohorts" if kw.get("method") != "cohorts" else "map-reduce"
        elif ing == "engine":
            ckw = dec_value(call["kwargs"])
            ckw["engine"] = "numpy"
            call["kwargs"] = enc_value(ckw)
            kw["engine"] = "flox" if not (isinstance(f, str) and "arg" in f) else "numba" if False else "numpy"
            if kw["engine"] == "numpy":
                kw["engine"] = "numbagg" if not (isinstance(f, str) and "arg" in f) else "numpy"
        elif ing == "sort":
            kw["sort"] = False
        elif ing == "reindex":
            ckw = dec_value(call["kwargs"])
            ckw["method"] = "map-reduce"
            ckw["reindex"] = True
            ckw.setdefault("expected_groups", np.arange(ngroups + 1))
            ckw.setdefault("fill_value", -1 if isinstance(f, str) and "arg" in f else 0)
            if isinstance(f, str) and ("arg" in f or f in ("nanfirst",)):
                ckw["func"] = "nansum"
            call["kwargs"] = enc_value(ckw)
            kw = dict(ckw)
            kw["reindex"] = False
        elif ing == "chunks":
            c["chunks"] = [gen_chunks(tape, n, max_blocks=6, style="random")]
            if c["chunks"] == call["chunks"]:
                c["chunks"] = [[n]]
        c["kwargs"] = enc_value(kw)
        return c

    fault_kinds = set()
    ingredient = None
    while len(ops) < nops:
        r = tape.draw("gen.optype", 14)
        if r < 4 or not handles:
            call = base_call()
            ops.append(call)
            handles.append(len(ops) - 1)
            if tape.chance("gen.variants", 0.6) and len(ops) < nops:
                ingredient = tape.choice("gen.ingredient", INGREDIENTS)
                nv = 2 if tape.chance("gen.triple", 0.25) else 1
                group = [len(ops) - 1]
                for _ in range(nv):
                    v = variant(call, ingredient if _ == 0 else tape.choice("gen.ingredient2", INGREDIENTS))
                    ops.append(v)
                    handles.append(len(ops) - 1)
                    group.append(len(ops) - 1)
                ops[group[0]] = call  # variant() may have adjusted the base call
                order = tape.shuffle("gen.order", group)
                ops.append({"op": "compute", "handles": order})
                ops.append({"op": "compute", "handles": order[::-1]})
        elif r < 5:
            def scan_op():
                ai = tape.choice("gen.scanarr", [0, 1, 2, 4, 5])
                fn = tape.choice("gen.scan", ["nancumsum", "ffill", "bfill"] if ai != 5 else ["ffill", "bfill"])
                op = {"op": "call", "api": "groupby_scan", "arr": ai, "lab": tape.draw("gen.lab", 2),
                      "chunks": [base_chunks], "kwargs": enc_value({"func": fn})}
                if tape.chance("gen.scan.eager", 0.3):
                    op["eager"] = True
                return op

            ops.append(scan_op())
            handles.append(len(ops) - 1)
            if tape.chance("gen.scanpair", 0.6):
                ops.append(scan_op())
                handles.append(len(ops) - 1)
                ops.append({"op": "compute", "handles": [len(ops) - 2, len(ops) - 1]})
        elif r < 6 or r == 12:
            ops.append({"op": "call", "api": tape.choice("gen.rechunk", ["rechunk_for_blockwise", "rechunk_for_blockwise", "rechunk_for_cohorts",
                                                                         "xr_rechunk_for_blockwise", "xr_rechunk_for_cohorts"]),
                        "arr": tape.draw("gen.arr", 3), "lab": 2 + tape.draw("gen.sortedlab", 2),
                        "xr_kind": tape.choice("gen.xrkind", ["ds", "da"]),
                        "chunks": [base_chunks if tape.chance("gen.samechunks", 0.7) else gen_chunks(tape, n, max_blocks=5)], "kwargs": {}})
        elif r < 7:
            ops.append({"op": "call", "api": "blockwise_1d", "arr": tape.draw("gen.arr", 3), "lab": 2 + tape.draw("gen.sortedlab", 2),
                        "chunks": [base_chunks if tape.chance("gen.samechunks", 0.7) else gen_chunks(tape, n, max_blocks=5)],
                        "kwargs": enc_value({"func": tape.choice("gen.bwfunc", ["sum", "nanmax", "median", "count"]), "method": "blockwise"})})
            handles.append(len(ops) - 1)
        elif r < 8:
            ops.append({"op": "call", "api": tape.choice("gen.xr", ["xarray_reduce", "xarray_reduce_ds"]), "arr": 0, "arr2": 1,
                        "lab": tape.draw("gen.lab", 2), "chunks": [base_chunks],
                        "kwargs": enc_value({"func": tape.choice("gen.xrfunc", ["sum", "mean", "var", "max", "count"]),
                                             "expected_groups": np.arange(ngroups),
                                             **tape.choice("gen.xrkeep", [{}, {}, {"keep_attrs": True}, {"keep_attrs": False}])})})
        elif r == 8 and len(handles) >= 2:
            k = 3 if len(handles) >= 3 and tape.chance("gen.triple2", 0.3) else 2
            ops.append({"op": "compute", "handles": tape.shuffle("gen.pick", handles)[:k]})
        elif r == 13:
            # the same call on a 2-D label array and on its transposed view (equal content tokens for square arrays)
            for which in tape.shuffle("gen.2d.order", [4, 5]):
                ops.append({"op": "call", "api": "groupby_reduce", "arr": 3, "lab": which,
                            "chunks": [[k2], tape.choice("gen.2d.chunks", [[k2], [1] * k2])],
                            "kwargs": enc_value({"func": tape.choice("gen.2d.func", ["sum", "nanmax", "count"]),
                                                 "expected_groups": np.arange(3), "fill_value": 0}),
                            **({"eager": True} if tape.chance("gen.2d.eager", 0.5) else {})})
        elif r == 9:
            mode = tape.choice("gen.clock", ["frozen", "backward", "jumpy", "normal"])
            ops.append({"op": "clock", "mode": mode})
            fault_kinds.add("clock")
        else:
            what = tape.choice("gen.cache", ["clear", "resize", "parts_clear"])
            ops.append({"op": "cache", "what": what})
            fault_kinds.add(what)
    return {
        "kind": "history",
        "pool": {"arrays": [enc_array(a) for a in arrays], "labels": [enc_array(l) for l in labels] + [{"view_of": 4}]},
        "ops": ops,
        "knobs": swarm_knobs(tape, len(base_chunks)),
        "meta": {"ingredient": ingredient},
    }


# ---------------------------------------------------------------------------
# executing one call
# ---------------------------------------------------------------------------


def decode_pool(pool):
    """arrays, labels (label entries may be views of other entries: a transposed, non-contiguous view
    has the same content token as its C-contiguous twin when the array is square)."""
    arrays = [dec_array(a) for a in pool["arrays"]]
    labels = []
    for l in pool["labels"]:
        if isinstance(l, dict) and "view_of" in l:
            labels.append(labels[l["view_of"]].T)
        else:
            labels.append(dec_array(l))
    return arrays, labels


def _decode_kwargs(enc, user_aggs):
    import json

    kw = dec_value(enc) if enc else {}
    # argument objects are shared between the calls of a history that pass "the same" argument
    pool = user_aggs.setdefault("__objects__", {})
    r = kw.get("reindex")
    if isinstance(r, dict) and "__reindex__" in r:
        key = "reindex:" + json.dumps(r, sort_keys=True)
        if key not in pool:
            from flox import ReindexStrategy

            pool[key] = ReindexStrategy(blockwise=r["__reindex__"]["blockwise"])
        kw["reindex"] = pool[key]
    cont = kw.pop("__eg_container__", None)
    for name in ("expected_groups", "finalize_kwargs"):
        if name in kw and enc and name in enc:
            key = name + ":" + str(cont if name == "expected_groups" else "") + ":" + json.dumps(enc[name], sort_keys=True, default=str)
            if key not in pool:
                obj = kw[name]
                if name == "expected_groups" and isinstance(obj, np.ndarray):
                    # the caller's container: list / ndarray / pandas Index (must come back untouched)
                    if cont == "list":
                        obj = obj.tolist()
                    elif cont == "index":
                        import pandas as pd

                        obj = pd.Index(obj)
                pool[key] = obj
            kw[name] = pool[key]
    f = kw.get("func")
    if isinstance(f, dict) and "custom" in f:
        name = f["custom"]
        if name not in user_aggs:
            from ..custom_aggs import make_custom

            user_aggs[name] = make_custom(name)
        kw["func"] = user_aggs[name]
    return kw


def do_call(arrays, labels, op, user_aggs):
    """Execute an API call.  Returns (kind, payload) with kind in
    'lazy' (payload: list of dask collections + static parts + assemble fn), 'eager' (tuple of numpy)."""
    import dask.array as da
    import flox
    from dask.base import is_dask_collection

    api = op["api"]
    arr = arrays[op["arr"]]
    lab = labels[op["lab"]]
    chunks = tuple(tuple(c) for c in op["chunks"])
    kw = _decode_kwargs(op.get("kwargs"), user_aggs)
    darr = da.from_array(arr, chunks=chunks) if not op.get("eager") else arr
    if api in ("groupby_reduce", "blockwise_1d"):
        out = flox.groupby_reduce(darr, lab, **kw)
    elif api == "groupby_scan":
        out = (flox.groupby_scan(darr, lab, **kw),)
    elif api == "rechunk_for_blockwise":
        r = flox.rechunk_for_blockwise(darr, axis=-1, labels=lab)
        out = (r, np.array(r.chunks[-1]))
    elif api == "rechunk_for_cohorts":
        r = flox.rechunk_for_cohorts(darr, axis=-1, labels=lab, force_new_chunk_at=[lab[0]], chunksize=max(1, len(lab) // 3))
        out = (r, np.array(r.chunks[-1]))
    elif api in ("xarray_reduce", "xarray_reduce_ds"):
        import xarray as xr

        from flox.xarray import xarray_reduce

        # the caller's xarray objects live for the whole history (they are reused by later calls)
        xo = user_aggs.setdefault("__xobj__", {})
        key = (api, op["arr"], op.get("arr2"), op["lab"], tuple(chunks[-1]))
        if key not in xo:
            labda = xr.DataArray(lab, dims=["x"], name="lab", attrs={"units": "label"})
            if api == "xarray_reduce":
                obj = xr.DataArray(darr, dims=["x"], name="v", attrs={"units": "m"}, coords={"lab": labda, "x": np.arange(len(lab))})
            else:
                d2 = da.from_array(arrays[op["arr2"]], chunks=chunks)
                # "c" has none of the reduced dimensions: it passes through xarray_reduce untouched
                obj = xr.Dataset({"a": (("x",), darr, {"units": "m"}), "b": (("x",), d2), "c": (("y",), np.arange(3.0), {"note": "kept"})},
                                 coords={"lab": labda}, attrs={"title": "t"})
            xo[key] = (obj, labda)
            user_aggs.setdefault("__xobj_digest__", {})[key] = _xobj_digest(obj, labda)
        obj, labda = xo[key]
        if api == "xarray_reduce":
            res = xarray_reduce(obj, labda, **kw)
            out = (res.data, np.asarray(res["lab"].values))
        else:
            res = xarray_reduce(obj, labda, **kw)
            out = (res["a"].data, res["b"].data, np.asarray(res["lab"].values), np.asarray(res["c"].values),
                   np.array(sorted(f"{k}:{sorted(res[k].attrs.items())}" for k in res.data_vars), dtype=object))
    elif api in ("xr_rechunk_for_blockwise", "xr_rechunk_for_cohorts"):
        import xarray as xr

        import flox.xarray as fx

        # one persistent xarray object per run: the helpers must rechunk a copy, never the caller's object
        xpool = user_aggs.setdefault("__xr__", {})
        kind = op.get("xr_kind", "ds")
        key = (kind, op["arr"], tuple(chunks[-1]))
        if key not in xpool:
            if kind == "ds":
                d2 = da.from_array(arrays[(op["arr"] + 1) % 3].astype("f8"), chunks=chunks)
                xpool[key] = xr.Dataset({"a": (("x",), darr), "b": (("x",), d2), "c": (("y",), np.arange(3.0))})
            else:
                xpool[key] = xr.DataArray(darr, dims=["x"], name="a", attrs={"units": "m"})
            user_aggs.setdefault("__xr_digest__", {})[key] = _xr_digest(xpool[key])  # state before any helper saw it
        ds = xpool[key]
        labda = xr.DataArray(lab, dims=["x"], name="lab")
        if api == "xr_rechunk_for_blockwise":
            r = fx.rechunk_for_blockwise(ds, "x", labda)
        else:
            r = fx.rechunk_for_cohorts(ds, "x", labda, force_new_chunk_at=[lab[0]], chunksize=max(1, len(lab) // 3))
        if kind == "ds":
            out = (r["a"].data, r["b"].data, np.array(r["a"].data.chunks[-1]), np.asarray(r["c"].values))
        else:
            out = (r.data, np.array(r.data.chunks[-1]))
    else:
        raise ValueError(api)
    return tuple(out)


def _obj_digest(obj):
    """Semantic state of an argument object (a pandas Index caches derived values in its __dict__:
    that is not a modification)."""
    import dataclasses

    import pandas as pd

    if isinstance(obj, (pd.Index, np.ndarray, list, tuple, dict)) or dataclasses.is_dataclass(obj):
        return digest(obj, size=12)
    return digest(vars(obj) if hasattr(obj, "__dict__") else obj, size=12)


def _xobj_digest(obj, labda):
    """Everything about the caller's xarray objects that a call could leave changed."""
    import xarray as xr

    def one(o):
        if isinstance(o, xr.Dataset):
            return [list(o.dims), sorted(map(str, o.coords)), dict(o.attrs), {k: one(o[k]) for k in o.data_vars}]
        data = o.variable._data
        return [list(o.dims), sorted(map(str, o.coords)), dict(o.attrs), str(o.name), repr(getattr(o, "chunks", None)),
                getattr(data, "name", None) or digest(np.asarray(data)), str(o.dtype)]

    return digest(repr([one(obj), one(labda)]), size=12)


def _xr_digest(ds):
    import xarray as xr

    if isinstance(ds, xr.DataArray):
        return digest([repr(ds.chunks), ds.data.name, list(ds.dims), dict(ds.attrs), str(ds.name)], size=12)
    return digest([repr({k: tuple(v) for k, v in ds.chunks.items()}), ds["a"].data.name, ds["b"].data.name, list(ds.variables)], size=12)


def _compute_sync(out):
    from dask.base import is_dask_collection

    colls = [o for o in out if is_dask_collection(o)]
    vals = iter(sim_compute(colls, backend="sync")) if colls else iter(())
    return tuple(np.asarray(next(vals)) if is_dask_collection(o) else np.asarray(o) for o in out)


def pristine_eval(req):
    """Runs in a grandchild of the zygote: first flox call of the process."""
    pool, op = req
    arrays, labels = decode_pool(pool)
    try:
        out = do_call(arrays, labels, op, {})
        return ("value", _compute_sync(out))
    except REFUSALS as e:
        return ("refused", type(e).__name__)


def _registry_snapshot():
    from flox.aggregations import AGGREGATIONS

    return digest({k: (vars(v) if hasattr(v, "__dict__") else v) for k, v in AGGREGATIONS.items()}, size=12)


def _colliding_keys(outs):
    """Keys that two source graphs define with different tasks (diagnostic for a co-compute mismatch)."""
    from dask.base import is_dask_collection, tokenize

    graphs = []
    for out in outs:
        g = {}
        for o in out:
            if is_dask_collection(o):
                g.update(dict(o.__dask_graph__()))
        graphs.append(g)
    bad = set()
    for i in range(len(graphs)):
        for j in range(i + 1, len(graphs)):
            for k in graphs[i].keys() & graphs[j].keys():
                try:
                    same = tokenize(graphs[i][k]) == tokenize(graphs[j][k])
                except Exception:  # noqa: BLE001
                    same = True
                if not same:
                    bad.add(k[0] if isinstance(k, tuple) else k)
    import re

    return sorted({re.sub(r"[0-9a-f]{32}", "<token>", str(b)) for b in bad})


def run(case, tape: Tape, ctx):
    import dask
    import flox.cache
    from dask.base import is_dask_collection

    from flox import dask_array_ops

    if _zy() is None:
        raise RuntimeError("zygote not started (warmup() must run before workers are forked)")
    if _REGISTRY0 is None:
        warmup()
    _reset_known_state()
    arrays, labels = decode_pool(case["pool"])
    user_aggs: dict = {}
    arg_digests = {("arr", i): digest(a) for i, a in enumerate(arrays)}
    arg_digests.update({("lab", i): digest(l) for i, l in enumerate(labels)})
    reg0 = _registry_snapshot()
    clock = SimClock()
    outs: dict[int, tuple] = {}
    alone: dict[int, tuple] = {}
    ncalls = 0
    nmerged = 0
    faults = set()
    apis = []
    orig_size = getattr(flox.cache.cache, "available_bytes", None)

    def check_side_effects(i, op):
        for (kind, j), d in arg_digests.items():
            cur = digest(arrays[j] if kind == "arr" else labels[j])
            if cur != d:
                raise Violation("side-effect", f"op {i} ({op.get('api', op['op'])}) modified its {'value' if kind == 'arr' else 'label'} "
                                f"array argument #{j}", op=i, api=op.get("api"))
        for key, obj in user_aggs.get("__objects__", {}).items():
            d = _obj_digest(obj)
            if obj_digests.setdefault(key, d) != d:
                raise Violation("side-effect", f"op {i} ({op.get('api')}) modified its {key.split(':')[0]} argument object "
                                f"({key})", op=i, api=op.get("api"), argument=key.split(":")[0])
        for key, (xobj, xlab) in user_aggs.get("__xobj__", {}).items():
            if user_aggs["__xobj_digest__"][key] != _xobj_digest(xobj, xlab):
                raise Violation("side-effect", f"op {i} ({op.get('api')}) modified the xarray object(s) passed to it "
                                f"(dims / coords / attrs / name / chunks / data of the caller's object changed)",
                                op=i, api=op.get("api"), argument="xarray")
        for key, ds in user_aggs.get("__xr__", {}).items():
            d = _xr_digest(ds)
            if user_aggs.get("__xr_digest__", {}).get(key, d) != d:
                raise Violation("side-effect", f"op {i} ({op.get('api')}) modified the xarray object passed to it "
                                f"(chunks/variables of the caller's Dataset changed)", op=i, api=op.get("api"), argument="xarray")
        for name, agg in user_aggs.items():
            if name.startswith("__"):
                continue
            d = digest(vars(agg), size=12)
            if agg_digests.setdefault(name, d) != d:
                raise Violation("side-effect", f"op {i} ({op.get('api')}) modified the user's Aggregation object {name!r}", op=i, api=op.get("api"))
        if _registry_snapshot() != reg0:
            raise Violation("side-effect", f"op {i} ({op.get('api', op['op'])}) modified flox's AGGREGATIONS registry", op=i, api=op.get("api"))

    agg_digests: dict = {}
    obj_digests: dict = {}
    try:
        with simulated_cache_clock(clock):
            for i, op in enumerate(case["ops"]):
                if op["op"] == "call":
                    apis.append(op["api"])
                    f = dec_value(op.get("kwargs") or {}).get("func")
                    if isinstance(f, dict):
                        # make sure the (reused) user object exists and is snapshotted BEFORE the call
                        _decode_kwargs(op["kwargs"], user_aggs)
                        for name, agg in user_aggs.items():
                            if not name.startswith("__"):
                                agg_digests.setdefault(name, digest(vars(agg), size=12))
                        ctx.probe("custom_aggregation_reused", len([1 for o in case["ops"][:i] if o.get("op") == "call" and isinstance(dec_value(o.get("kwargs") or {}).get("func"), dict)]) > 0)
                    kw_objs = _decode_kwargs(op.get("kwargs"), user_aggs)
                    for key, obj in user_aggs.get("__objects__", {}).items():
                        obj_digests.setdefault(key, _obj_digest(obj))
                    eg = kw_objs.get("expected_groups")
                    eg_d = digest(eg) if eg is not None else None
                    hits0 = getattr(flox.cache.cache, "hits", None)
                    try:
                        out = do_call(arrays, labels, op, user_aggs)
                        local = ("value", None)
                    except REFUSALS as e:
                        out = None
                        local = ("refused", type(e).__name__)
                    except Exception as e:  # noqa: BLE001
                        cls, msg, det = classify_exception(e)
                        det.update(op=i, api=op["api"])
                        raise Violation(cls, f"op {i} {op['api']}: {msg}", **det)
                    ncalls += 1
                    ctx.probe("eager_call", bool(op.get("eager")))
                    ctx.probe("labels_2d_and_transposed_view", op.get("lab") == 5)
                    ctx.probe("reindex_object_reused", any(k.startswith("reindex:") for k in user_aggs.get("__objects__", {})))
                    ctx.probe("rechunk_helper", "rechunk" in op["api"])
                    ctx.probe("xarray_rechunk_helper", op["api"].startswith("xr_rechunk"))
                    ctx.probe("scan", op["api"] == "groupby_scan")
                    if eg is not None and digest(eg) != eg_d:
                        raise Violation("side-effect", f"op {i} ({op['api']}) modified its expected_groups argument", op=i, api=op["api"])
                    check_side_effects(i, op)
                    # history oracle
                    resp = _zy().request(("eval", case["pool"], op))
                    if resp[0] != "ok":
                        raise RuntimeError(f"pristine process failed: {resp[1:]}")
                    pr = resp[1]
                    if out is None:
                        if pr[0] != "refused":
                            raise Violation("history", f"op {i} ({op['api']}) is refused ({local[1]}) after this history but succeeds "
                                            f"when executed first in a fresh process", op=i, api=op["api"])
                        continue
                    if pr[0] == "refused":
                        raise Violation("history", f"op {i} ({op['api']}) succeeds after this history but is refused ({pr[1]}) when "
                                        f"executed first in a fresh process", op=i, api=op["api"])
                    try:
                        val = _compute_sync(out)
                    except Exception as e:  # noqa: BLE001
                        cls, msg, det = classify_exception(e)
                        det.update(op=i, api=op["api"])
                        raise Violation(cls, f"op {i} {op['api']} (compute alone): {msg}", **det)
                    d = deep_diff(val, pr[1])
                    if d:
                        raise Violation("history", f"op {i} ({op['api']}, kwargs {dec_value(op.get('kwargs') or {})}) gives a different "
                                        f"result after this history than when executed first in a fresh process: {d}", op=i, api=op["api"])
                    outs[i] = out
                    alone[i] = val
                    check_side_effects(i, op)
                    if op["api"] == "xarray_reduce_ds":
                        # the variables of one Dataset evaluated together
                        colls = [o for o in out if is_dask_collection(o)]
                        try:
                            comp = exec_sim(colls, tape, case["knobs"], ctx, info=RunInfo())
                        except TaskError as te:
                            cls, msg, det = classify_exception(te)
                            raise Violation("collision", f"op {i}: Dataset variables computed together fail: {msg}", **det)
                        for j, c in enumerate(comp):
                            dd = deep_diff(np.asarray(c), val[j])
                            if dd:
                                raise Violation("collision", f"op {i}: Dataset variable {j} computed together with its sibling differs "
                                                f"from the variable computed alone: {dd}; colliding layers: {_colliding_keys([out])}",
                                                op=i, api=op["api"], merge_diff="array")
                        nmerged += 1
                        ctx.probe("merged_dataset_variables")
                elif op["op"] == "compute":
                    hs = [h for h in op["handles"] if h in outs]
                    if len(hs) < 2:
                        continue
                    colls, slots = [], []
                    for h in hs:
                        for o in outs[h]:
                            if is_dask_collection(o):
                                colls.append(o)
                                slots.append(h)
                    try:
                        comp = exec_sim(colls, tape, case["knobs"], ctx, info=RunInfo())
                    except (TaskError, Violation, ValueError, KeyError, RuntimeError) as te:
                        if isinstance(te, Violation) and te.cls != "stuck":
                            raise
                        if isinstance(te, TaskError):
                            cls, msg, det = classify_exception(te)
                        else:
                            msg, det = f"{type(te).__name__}: {te}", {}
                        layers = _colliding_keys([outs[h] for h in hs])
                        det.update(handles=hs, merge_diff=case["meta"].get("ingredient"), layers=layers)
                        raise Violation("collision", f"op {i}: handles {hs} ({[case['ops'][h]['api'] for h in hs]}) computed together fail "
                                        f"({msg[:300]}) although each computes alone; colliding layers: {layers}", **det)
                    it = iter(comp)
                    for h in hs:
                        got = tuple(np.asarray(next(it)) if is_dask_collection(o) else np.asarray(o) for o in outs[h])
                        dd = deep_diff(got, alone[h])
                        if dd:
                            raise Violation(
                                "collision",
                                f"op {i}: handle {h} ({case['ops'][h]['api']} {dec_value(case['ops'][h].get('kwargs') or {})}) computed "
                                f"together with handles {[x for x in hs if x != h]} differs from the same handle computed alone: {dd}; "
                                f"colliding layers: {_colliding_keys([outs[x] for x in hs])}",
                                handles=hs, merge_diff=case["meta"].get("ingredient"), layers=_colliding_keys([outs[x] for x in hs]))
                    nmerged += 1
                    ctx.probe("merged_pair", len(hs) == 2)
                    ctx.probe("merged_triple", len(hs) >= 3)
                    check_side_effects(i, op)
                elif op["op"] == "clock":
                    clock.mode = op["mode"]
                    faults.add("clock:" + op["mode"])
                    ctx.faults["clock_fault"] = ctx.faults.get("clock_fault", 0) + 1
                    ctx.probe("clock_fault")
                    ctx.log.add(f"ENV clock {op['mode']}")
                elif op["op"] == "cache":
                    if op["what"] == "clear" and hasattr(flox.cache.cache, "clear"):
                        flox.cache.cache.clear()
                        ctx.probe("cache_cleared")
                    elif op["what"] == "resize" and hasattr(flox.cache.cache, "resize"):
                        flox.cache.cache.resize(64)
                        ctx.probe("cache_resized")
                    elif op["what"] == "parts_clear" and hasattr(dask_array_ops.get_parts, "cache_clear"):
                        dask_array_ops.get_parts.cache_clear()
                        ctx.probe("parts_cache_cleared")
                    faults.add(op["what"])
                    ctx.faults["cache_fault"] = ctx.faults.get("cache_fault", 0) + 1
                    ctx.log.add(f"ENV cache {op['what']}")
    finally:
        try:
            if hasattr(flox.cache.cache, "resize") and orig_size is not None:
                flox.cache.cache.resize(1e6)
        except Exception:  # noqa: BLE001
            pass
    ing = case["meta"].get("ingredient")
    if ing:
        ctx.probe("ingredient_" + ing)
    ctx.nontrivial = ncalls >= 2 and (nmerged > 0 or bool(faults))
    ctx.cell("+".join(sorted(set(apis))), ing, nmerged, "+".join(sorted(faults)))


def shrink(case):
    ops = case["ops"]
    # drop one op at a time (later first); handles in compute ops are re-indexed
    for i in range(len(ops) - 1, -1, -1):
        c = copy.deepcopy(case)
        del c["ops"][i]
        ok = True
        for o in c["ops"]:
            if o["op"] == "compute":
                nh = []
                for h in o["handles"]:
                    if h == i:
                        continue
                    nh.append(h - 1 if h > i else h)
                o["handles"] = nh
        c["ops"] = [o for o in c["ops"] if not (o["op"] == "compute" and len(o["handles"]) < 2)]
        if c["ops"]:
            yield c
    # fewer blocks
    for i, o in enumerate(ops):
        if o["op"] == "call" and len(o["chunks"][0]) > 1:
            c = copy.deepcopy(case)
            c["ops"][i]["chunks"] = [[sum(o["chunks"][0])]]
            yield c


def simplify_knobs(case):
    from ..redcase import simplify_knobs as sk

    yield from sk(case)
