"""C13 — generated tasks are pure, re-executable and serialisable."""
from __future__ import annotations

import copy

import numpy as np

from ..cluster import TaskError, Violation
from ..digest import deep_diff
from ..redcase import (
    ALL_TREE_FUNCS,
    ORDER,
    call_chunked,
    exec_sim,
    gen_reduce_case,
    gen_scan_case,
    nblocks_reduced,
    plain_kwargs,
    shrink_reduce,
    simplify_knobs,
)
from ..runner import REFUSALS, Skip, classify_exception
from ..simexec import RunInfo, sim_compute
from ..tape import Tape

ID = "C13"
LEVEL = "fault_enumeration"
BUDGET = {"quick": 45, "thorough": 900}
RULE = (
    "One run = one generated graph (reductions of every strategy and engine incl. blockwise/order statistics with "
    "auto-rechunk, two groupers, user Aggregation objects, and scans); half of the runs are light (one execution with every task and result cloudpickled, compared with the sync baseline), the other half full: "
    "in a full run EVERY task of the graph is (1) cloudpickled before execution, (2) executed twice on "
    "the same inputs with the results compared, (3) its inputs digested before/after, (4) its result cloudpickled "
    "and compared; the run additionally draws worker crashes (recompute from released inputs), read-only input and "
    "transfer buffers and shared-reference hand-over from the tape; half of the tasks additionally run under sys.settrace with their input digests re-checked at every line executed inside flox (a write that is undone before the task returns is invisible at task boundaries but visible to a concurrent task sharing the input); the final result must equal the sync "
    "baseline bit for bit. Then the crash point is enumerated per graph: one further execution per task with a worker "
    "crash placed right after that task (all tasks in the thorough tier when the graph has <=64 tasks, 3 sampled "
    "ones in the quick tier). Non-trivial iff the graph has >=2 blocks on the reduced axis. distinct_nontrivial = "
    "distinct (kind, func, method, engine, reindex, dtype kind, by kind, #blocks bucket) cells among those."
)
ASSUMPTIONS = [
    "purity is observed at task boundaries for every task, and at line granularity inside flox frames for the traced half; writes made inside compiled kernels between two Python lines are seen at the next line",
    "real concurrent interleaving of two task bodies is not executed; a net or transient modification of a shared input is a violation under any interleaving, which is what is checked",
    "sampled graphs; per graph the crash point enumeration is complete only in the thorough tier for graphs of <=64 tasks",
]
PROBES = ["light_pickle_run", "tasks_line_traced_for_transient_writes", "user_aggregation_reused_between_build_and_run", "crash_recomputed_released_key", "readonly_write_attempt_spurious", "crash_point_enumerated_fully",
          "engine_numbagg", "engine_flox", "blockwise_rechunk", "scan", "by_dask"]


def gen(tape: Tape, tier: str) -> dict:
    r = tape.draw("gen.kind", 10)
    if r < 2:
        case = gen_scan_case(tape, max_blocks=8)
    elif r == 2:
        from ..redcase import gen_multi_by_case

        case = gen_multi_by_case(tape)  # two groupers, lazily factorised when the labels are dask arrays
    else:
        case = gen_reduce_case(
            tape,
            funcs=ALL_TREE_FUNCS + ["first", "last", "median", "nanmedian", "quantile"],
            methods=("map-reduce", "cohorts", None, "blockwise"),
            reindexes=(None, None, True, False),
            engines=(None, None, "numpy", "flox", "numbagg"),
            max_n=24,
            max_blocks=8,
            by_dask_p=0.35,
            bydask_exact_p=0.2,  # mostly labels discovered at compute time (grouped combine, unknown-group extraction)
            # absent requested labels put the fill values (singletons such as np.nan, flox's NA/INF sentinels)
            # inside the shipped tasks
            expected_modes=("none", "none", "exact", "superset", "superset"),
        )
    if case["kind"] == "reduce" and tape.chance("gen.custom", 0.15):
        # a user Aggregation object, reused for a second call between graph construction and execution
        from ..cases import dec_value, enc_value
        from ..custom_aggs import CUSTOM

        kw = dec_value(case["kwargs"])
        kw["func"] = {"custom": tape.choice("gen.customname", CUSTOM)}
        kw.pop("engine", None)
        kw.pop("finalize_kwargs", None)
        if kw.get("method") == "blockwise":
            kw["method"] = "map-reduce"
        if "fill_value" in kw and not isinstance(kw["fill_value"], float):
            kw["fill_value"] = float(kw["fill_value"])
        case["kwargs"] = enc_value(kw)
        case["meta"]["custom"] = True
        # numpy labels only: with unknown dask labels flox takes the grouped combine, which calls a *callable*
        # combine with the grouped signature - the user aggregations here follow the simple-combine signature
        case["by_dask"] = False
        case["by_chunks"] = None
    case["crash_points"] = "all" if tier == "thorough" else 3
    # half of the runs are 'light': one execution with every task and every result cloudpickled (plus the
    # run's faults) against the sync baseline - cheap, so many more distinct graphs meet the pickle monitor
    case["mode"] = "light" if tape.chance("gen.light", 0.5) else "full"
    return case


def run(case, tape: Tape, ctx):
    knobs = dict(case["knobs"])
    nb = nblocks_reduced(case)
    kw = plain_kwargs(case)
    func = kw["func"]
    user_agg = None
    if case["meta"].get("custom"):
        from ..custom_aggs import make_custom

        user_agg = make_custom(func["custom"] if isinstance(func, dict) else func)
        func = user_agg.name
    try:
        colls, assemble, _ = call_chunked(case, func_override=user_agg)
        base = assemble(sim_compute(colls, backend="sync"))
    except REFUSALS as e:
        raise Skip(f"refused:{type(e).__name__}")
    except Exception as e:  # noqa: BLE001
        cls, msg, det = classify_exception(e)
        det["phase"] = "baseline"
        raise Violation(cls, msg, **det)
    ctx.nontrivial = nb >= 2
    ctx.cell(case["kind"], func, kw.get("method"), kw.get("engine"), kw.get("reindex"),
             np.dtype(case["array"]["dtype"]).kind, "dask" if case["by_dask"] else "np", min(nb, 5))
    ctx.probe("engine_numbagg", kw.get("engine") == "numbagg")
    ctx.probe("engine_flox", kw.get("engine") == "flox")
    ctx.probe("scan", case["kind"] == "scan")
    ctx.probe("by_dask", bool(case["by_dask"]))
    knobs["backend"] = "A"

    def one(crash_after=None, full=True):
        colls, assemble, _ = call_chunked(case, func_override=user_agg)
        if user_agg is not None:
            # the user's object is used for ANOTHER call (different fill / dtype) after this graph was
            # built and before its tasks run: tasks must not see state shared with that later call
            try:
                call_chunked(case, func_override=user_agg,
                             kwargs_override={"fill_value": 12345.0, "expected_groups": np.array([-999.5, 0.5, 1.75]),
                                              "dtype": "f4", "method": "map-reduce", "reindex": None})
                ctx.probe("user_aggregation_reused_between_build_and_run")
            except Exception:  # noqa: BLE001
                pass
        info = RunInfo()
        try:
            res = assemble(
                exec_sim(colls, tape, knobs, ctx, info=info, always_dup=full, always_pickle=full,
                         crash_after=crash_after, max_crashes=3, trace_p=(0.5 if full else 0.0))
            )
        except TaskError as te:
            cls, msg, det = classify_exception(te)
            det.update(phase="simulated")
            raise Violation("schedule-dependent-error", f"baseline succeeded but the instrumented execution failed: {msg}", **det)
        d = deep_diff(res, base)
        if d:
            raise Violation("value", f"instrumented execution differs from the sync baseline: {d}",
                            crash_after=sorted(crash_after) if crash_after else None)
        return info

    if case.get("mode") == "light":
        colls, assemble, _ = call_chunked(case, func_override=user_agg)
        info = RunInfo()
        try:
            res = assemble(exec_sim(colls, tape, knobs, ctx, info=info, always_pickle=True))
        except TaskError as te:
            cls, msg, det = classify_exception(te)
            det.update(phase="pickled")
            raise Violation("schedule-dependent-error", f"baseline succeeded but the execution with every task and result "
                            f"cloudpickled failed: {msg}", **det)
        d = deep_diff(res, base)
        if d:
            raise Violation("pickle", f"execution with every task and result cloudpickled differs from the sync baseline: {d}")
        ctx.probe("light_pickle_run")
        return
    info = one()
    ctx.probe("tasks_line_traced_for_transient_writes", info.stats.get("traced_tasks", 0))
    ctx.count("traced_lines", info.stats.get("traced_lines", 0))
    names = {k[0] if isinstance(k, tuple) else k for k in info.graph}
    ctx.probe("blockwise_rechunk", any(isinstance(n, str) and n.startswith("rechunk") for n in names))
    # crash-point enumeration
    tasks = [k for k in info.order if True]
    uniq = list(dict.fromkeys(tasks))
    cp = case.get("crash_points", 3)
    if cp == "all" and len(uniq) <= 64:
        pts = uniq
        ctx.probe("crash_point_enumerated_fully")
    else:
        n = 3 if cp == "all" else int(cp)
        pts = tape.shuffle("fault.crashpoint", uniq)[:n]
    for k in pts:
        one(crash_after={k}, full=False)
        ctx.count("crash_points_run")


def shrink(case):
    if case.get("mode") == "full":
        c = copy.deepcopy(case)
        c["mode"] = "light"
        yield c
    if case.get("crash_points") != 0:
        c = copy.deepcopy(case)
        c["crash_points"] = 0
        yield c
    yield from shrink_reduce(case)


simplify_knobs = simplify_knobs
