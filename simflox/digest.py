"""Deep digests and deep equality over the values flox tasks exchange.

Values are numpy arrays / scalars, dicts, tuples, lists, pandas Index objects,
dataclasses (AlignedArrays, ScanState), None, str, numbers, slices.
"""
from __future__ import annotations

import dataclasses
import hashlib

import numpy as np
import pandas as pd


def _arr_bytes(a: np.ndarray) -> bytes:
    if a.dtype.kind == "O":
        return repr(a.tolist()).encode()
    return np.ascontiguousarray(a).tobytes()


def _feed(h, v) -> None:
    if isinstance(v, np.ndarray):
        h.update(b"A")
        h.update(str(v.dtype).encode())
        h.update(repr(v.shape).encode())
        h.update(_arr_bytes(v))
    elif isinstance(v, np.generic):
        h.update(b"G")
        h.update(str(v.dtype).encode())
        h.update(_arr_bytes(np.asarray(v)))
    elif isinstance(v, pd.Index):
        h.update(b"I")
        h.update(type(v).__name__.encode())
        if isinstance(v, pd.IntervalIndex):
            h.update(repr((v.closed,)).encode())
            _feed(h, np.asarray(v.left))
            _feed(h, np.asarray(v.right))
        else:
            _feed(h, np.asarray(v))
    elif isinstance(v, dict):
        h.update(b"D%d" % len(v))
        for k in v:  # insertion order is part of the value for our purposes
            h.update(repr(k).encode() if not callable(k) else getattr(k, "__name__", "fn").encode())
            _feed(h, v[k])
    elif isinstance(v, (tuple, list)):
        h.update(b"T" if isinstance(v, tuple) else b"L")
        h.update(b"%d" % len(v))
        for x in v:
            _feed(h, x)
    elif dataclasses.is_dataclass(v) and not isinstance(v, type):
        h.update(b"C" + type(v).__name__.encode())
        for f in dataclasses.fields(v):
            h.update(f.name.encode())
            _feed(h, getattr(v, f.name))
    elif v is None or isinstance(v, (bool, int, float, complex, str, bytes, slice)):
        h.update(b"S" + repr(v).encode())
    elif callable(v):
        h.update(b"F" + getattr(v, "__qualname__", type(v).__name__).encode())
    else:
        # unknown object: type name + public state if cheaply available
        h.update(b"O" + type(v).__name__.encode())
        st = getattr(v, "__dict__", None)
        if isinstance(st, dict):
            for k in sorted(st):
                h.update(k.encode())
                try:
                    _feed(h, st[k])
                except RecursionError:  # pragma: no cover
                    pass


def digest(v, size: int = 8) -> str:
    h = hashlib.blake2b(digest_size=size)
    _feed(h, v)
    return h.hexdigest()


def iter_arrays(v):
    """Yield every ndarray reachable in a value (for read-only marking)."""
    if isinstance(v, np.ndarray):
        yield v
    elif isinstance(v, dict):
        for x in v.values():
            yield from iter_arrays(x)
    elif isinstance(v, (tuple, list)):
        for x in v:
            yield from iter_arrays(x)
    elif dataclasses.is_dataclass(v) and not isinstance(v, type):
        for f in dataclasses.fields(v):
            yield from iter_arrays(getattr(v, f.name))


def _arr_equal(a: np.ndarray, b: np.ndarray, *, dtype: bool) -> str | None:
    if dtype and a.dtype != b.dtype:
        return f"dtype {a.dtype} != {b.dtype}"
    if a.shape != b.shape:
        return f"shape {a.shape} != {b.shape}"
    if a.dtype.kind == "O" or b.dtype.kind == "O":
        la, lb = a.tolist(), b.tolist()
        ok = _obj_equal(la, lb)
        return None if ok else f"values {la!r} != {lb!r}"
    try:
        if a.dtype.kind in "fcmM" or b.dtype.kind in "fcmM":
            ok = np.array_equal(a, b, equal_nan=True)
        else:
            ok = np.array_equal(a, b)
    except TypeError:
        ok = a.tolist() == b.tolist()
    if not ok:
        return f"values {np.asarray(a).tolist()!r} != {np.asarray(b).tolist()!r}"
    return None


def _obj_equal(a, b) -> bool:
    if isinstance(a, list) and isinstance(b, list):
        return len(a) == len(b) and all(_obj_equal(x, y) for x, y in zip(a, b))
    if isinstance(a, float) and isinstance(b, float) and a != a and b != b:
        return True
    try:
        if pd.isna(a) and pd.isna(b):
            return True
    except (TypeError, ValueError):
        pass
    return a == b


def deep_diff(a, b, *, dtype: bool = True, path: str = "") -> str | None:
    """None if equal (NaN == NaN, -0.0 == 0.0), else a description."""
    if isinstance(a, (np.ndarray, np.generic)) or isinstance(b, (np.ndarray, np.generic)):
        if not isinstance(a, (np.ndarray, np.generic)) or not isinstance(b, (np.ndarray, np.generic)):
            if not dtype:
                try:
                    d = _arr_equal(np.asarray(a), np.asarray(b), dtype=False)
                    return None if d is None else f"{path}: {d}"
                except Exception:
                    pass
            return f"{path}: type {type(a).__name__} != {type(b).__name__}"
        d = _arr_equal(np.asarray(a), np.asarray(b), dtype=dtype)
        return None if d is None else f"{path}: {d}"
    if isinstance(a, pd.Index) or isinstance(b, pd.Index):
        if not isinstance(a, pd.Index) or not isinstance(b, pd.Index):
            return f"{path}: type {type(a).__name__} != {type(b).__name__}"
        if type(a) is not type(b) and dtype:
            # RangeIndex vs Index with the same values is a representation detail
            pass
        d = _arr_equal(np.asarray(a), np.asarray(b), dtype=dtype)
        return None if d is None else f"{path}: {d}"
    if type(a) is not type(b):
        return f"{path}: type {type(a).__name__} != {type(b).__name__}"
    if isinstance(a, dict):
        if list(a.keys()) != list(b.keys()):
            return f"{path}: keys {list(a)!r} != {list(b)!r}"
        for k in a:
            d = deep_diff(a[k], b[k], dtype=dtype, path=f"{path}[{k!r}]")
            if d:
                return d
        return None
    if isinstance(a, (tuple, list)):
        if len(a) != len(b):
            return f"{path}: len {len(a)} != {len(b)}"
        for i, (x, y) in enumerate(zip(a, b)):
            d = deep_diff(x, y, dtype=dtype, path=f"{path}[{i}]")
            if d:
                return d
        return None
    if dataclasses.is_dataclass(a) and not isinstance(a, type):
        for f in dataclasses.fields(a):
            d = deep_diff(getattr(a, f.name), getattr(b, f.name), dtype=dtype, path=f"{path}.{f.name}")
            if d:
                return d
        return None
    if isinstance(a, float):
        if (a != a and b != b) or a == b:
            return None
        return f"{path}: {a!r} != {b!r}"
    try:
        eq = a == b
        if isinstance(eq, (bool, np.bool_)):
            return None if eq else f"{path}: {a!r} != {b!r}"
    except Exception:
        pass
    return None if digest(a) == digest(b) else f"{path}: {a!r} != {b!r}"


def deep_equal(a, b, *, dtype: bool = True) -> bool:
    return deep_diff(a, b, dtype=dtype) is None


def deep_copy_writable(v):
    """Private, writable deep copy of a task value."""
    if isinstance(v, np.ndarray):
        return np.array(v, copy=True)
    if isinstance(v, dict):
        return {k: deep_copy_writable(x) for k, x in v.items()}
    if isinstance(v, tuple):
        return tuple(deep_copy_writable(x) for x in v)
    if isinstance(v, list):
        return [deep_copy_writable(x) for x in v]
    if dataclasses.is_dataclass(v) and not isinstance(v, type):
        return dataclasses.replace(
            v, **{f.name: deep_copy_writable(getattr(v, f.name)) for f in dataclasses.fields(v)}
        )
    return v
