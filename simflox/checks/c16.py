"""C16 — group order follows the sort contract; the label->value mapping never changes."""
from __future__ import annotations

import numpy as np

from ..cluster import TaskError, Violation
from ..oracle import spy_plan, tol_for
from ..redcase import (
    SUM_FAMILY,
    MINMAX,
    call_chunked,
    call_eager,
    decode_case,
    exec_sim,
    gen_reduce_case,
    nblocks_reduced,
    plain_kwargs,
    shrink_reduce,
    simplify_knobs,
)
from ..refmodel import is_missing_label, present_labels
from ..runner import REFUSALS, Skip, classify_exception
from ..simexec import RunInfo
from ..tape import Tape

ID = "C16"
LEVEL = "exploration"
BUDGET = {"quick": 45, "thorough": 900}
RULE = (
    "One run = one call with labels of kind int / float-with-NaN / string, sort in {True, False}, expected_groups "
    "absent / sorted / unsorted (exact, superset or subset of the labels present), evaluated eagerly and chunked under a "
    "random strategy and chunking on the simulated cluster. Checks: sort=True -> returned labels strictly ascending and "
    "unique (every strategy); sort=False -> order of expected_groups, or order of first appearance for in-memory input; "
    "always: the label set equals the set present (or requested) with no loss or repetition, and dict(label -> value) "
    "equals that of the sorted eager call. String hashing is varied by drawing the label strings themselves per run "
    "(PYTHONHASHSEED is pinned for replay). Non-trivial iff >=2 groups and >=2 blocks. distinct_nontrivial = distinct "
    "(func, label kind, sort, expected mode, sorted/unsorted request, resolved method, #cohorts bucket, reorder-needed "
    "flag) cells."
)
ASSUMPTIONS = ["sampled, not exhaustive", "order under sort=False for chunked input without expected_groups is not specified by the statement and not checked"]
PROBES = ["resolved_cohorts", "resolved_blockwise", "cohorts_multi", "posthoc_reorder_needed", "unsorted_expected",
          "string_labels", "sort_false", "labels_with_nan"]


def gen(tape: Tape, tier: str) -> dict:
    return gen_reduce_case(
        tape,
        funcs=SUM_FAMILY + MINMAX + ["nanfirst", "nanlast", "first", "last", "nanargmax", "var"],
        methods=("map-reduce", "cohorts", "cohorts", None, None, "blockwise"),
        reindexes=(None, None, False, True),
        dtypes=("f8", "i8", "f4"),
        label_kinds=("int", "float", "str", "str"),
        max_n=36 if tier == "thorough" else 24,
        max_groups=8 if tier == "thorough" else 6,
        max_ndim=2,
        by_dask_p=0.25,
        expected_modes=("none", "none", "exact", "superset", "subset"),
        missing_label_p=0.15,
        sort_choices=(True, False),
        unsorted_expected_p=0.6,
        fill_choices=[float("nan"), 0, -7],
        patterns=["random", "periodic", "interleave2", "runs", "localized", "sorted"],
    )


def _key(x):
    if isinstance(x, float) and x != x:
        return "NaN"
    return repr(x.item() if isinstance(x, np.generic) else x)


def _mapping(res, labels):
    res = np.asarray(res)
    labels = np.asarray(labels)
    if res.shape[-1] != len(labels):
        raise Violation("labels", f"{len(labels)} labels for {res.shape[-1]} result slots")
    m = {}
    for i, l in enumerate(labels.tolist()):
        k = _key(l)
        if k in m:
            raise Violation("labels", f"label {l!r} is repeated in the returned labels {labels.tolist()}")
        m[k] = res[..., i]
    return m


def _check_order(which, labels, kw, by, chunked):
    labels = np.asarray(labels)
    lst = labels.tolist()
    sort = kw.get("sort", True)
    exp = kw.get("expected_groups")
    if sort:
        for a, b in zip(lst[:-1], lst[1:]):
            if not (a < b):
                raise Violation("order", f"{which}: sort=True but returned labels are not strictly ascending: {lst}", which=which)
    elif exp is not None:
        want = np.asarray(exp).tolist()
        if [_key(x) for x in lst] != [_key(x) for x in want]:
            raise Violation("order", f"{which}: sort=False but labels {lst} do not follow expected_groups {want}", which=which)
    elif not chunked:
        want = [_key(x) for x in present_labels(by)]
        if [_key(x) for x in lst] != want:
            raise Violation("order", f"{which}: sort=False on in-memory input: labels {lst} are not in order of first appearance {want}", which=which)
    # set
    if exp is not None:
        wantset = {_key(x) for x in np.asarray(exp).tolist()}
    else:
        wantset = {_key(x) for x in present_labels(by)}
    gotset = [_key(x) for x in lst]
    if len(set(gotset)) != len(gotset):
        raise Violation("labels", f"{which}: returned labels repeat: {lst}", which=which)
    if set(gotset) != wantset:
        raise Violation("labels", f"{which}: returned label set {sorted(gotset)} != expected {sorted(wantset)}", which=which)


def _cmp_maps(which, got, want, func, dta, dtb):
    rtol, atol = tol_for(func, dta, dtb)
    if set(got) != set(want):
        raise Violation("labels", f"{which}: label sets differ: {sorted(got)} vs {sorted(want)}", which=which)
    for k in want:
        a, b = np.asarray(got[k]), np.asarray(want[k])
        if a.dtype.kind == "f" or b.dtype.kind == "f":
            ok = np.allclose(a.astype("f8"), b.astype("f8"), rtol=rtol, atol=atol, equal_nan=True)
        else:
            ok = np.array_equal(a, b)
        if not ok:
            raise Violation("value", f"{which}: value attached to label {k} is {a.tolist()}, the sorted eager call gives {b.tolist()}", which=which)


def run(case, tape: Tape, ctx):
    kw = plain_kwargs(case)
    func = kw["func"]
    arr, bys, _ = decode_case(case)
    by = bys[0]
    nb = nblocks_reduced(case)
    # the reference: the sorted eager call
    sorted_case = dict(case)
    skw = dict(case["kwargs"])
    skw.pop("sort", None)
    sorted_case["kwargs"] = skw
    try:
        ref = call_eager(sorted_case)
        eager = call_eager(case)
    except REFUSALS as e:
        raise Skip(f"eager-refused:{type(e).__name__}")
    except Exception as e:  # noqa: BLE001
        cls, msg, det = classify_exception(e)
        det["which"] = "eager"
        raise Violation(cls, msg, **det)
    refmap = _mapping(ref[0], ref[1])
    _check_order("eager(sorted)", ref[1], {**kw, "sort": True}, by, False)
    _check_order("eager", eager[1], kw, by, False)
    _cmp_maps("eager", _mapping(eager[0], eager[1]), refmap, func, np.asarray(eager[0]).dtype, np.asarray(ref[0]).dtype)
    try:
        with spy_plan() as plan:
            colls, assemble, out = call_chunked(case)
    except REFUSALS as e:
        ctx.skip_slot("chunked-refused")
        return
    except Exception as e:  # noqa: BLE001
        cls, msg, det = classify_exception(e)
        det["which"] = "chunked"
        raise Violation(cls, msg, **det)
    info = RunInfo()
    try:
        res = assemble(exec_sim(colls, tape, case["knobs"], ctx, info=info))
    except TaskError as te:
        cls, msg, det = classify_exception(te)
        det.update(which="chunked", resolved_method=plan.get("method"))
        raise Violation(cls, msg, **det)
    which = f"chunked[{plan.get('method')}]"
    try:
        _check_order(which, res[1], kw, by, True)
        _cmp_maps(which, _mapping(res[0], res[1]), refmap, func, np.asarray(res[0]).dtype, np.asarray(ref[0]).dtype)
    except Violation as v:
        v.details.setdefault("resolved_method", plan.get("method"))
        raise
    labels = np.asarray(res[1]).tolist()
    exp = kw.get("expected_groups")
    ctx.nontrivial = nb >= 2 and len(labels) >= 2
    unsorted = exp is not None and [_key(x) for x in np.asarray(exp).tolist()] != [_key(x) for x in sorted(np.asarray(exp).tolist())]
    ctx.cell(func, case["meta"]["label_kind"], kw.get("sort", True), case["meta"].get("pattern"), int(unsorted),
             plan.get("method"), min(plan.get("ncohorts", 0), 3), "exp" if exp is not None else "noexp")
    ctx.probe("resolved_cohorts", plan.get("method") == "cohorts")
    ctx.probe("resolved_blockwise", plan.get("method") == "blockwise")
    ctx.probe("cohorts_multi", plan.get("ncohorts", 0) > 1)
    ctx.probe("unsorted_expected", unsorted)
    ctx.probe("string_labels", case["meta"]["label_kind"] == "str")
    ctx.probe("sort_false", kw.get("sort", True) is False)
    ctx.probe("labels_with_nan", any(is_missing_label(x) for x in by.tolist()))
    if info.graph is not None:
        names = {k[0] if isinstance(k, tuple) else k for k in info.graph}
        ctx.probe("posthoc_reorder_needed", any(isinstance(n, str) and (n.startswith("getitem") or n.startswith("vindex") or "take" in n) for n in names))


shrink = shrink_reduce
simplify_knobs = simplify_knobs
