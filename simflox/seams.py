"""Seams taken from outside: simulated planner thread pool, simulated clock."""
from __future__ import annotations

import contextlib


class _SimFuture:
    def __init__(self, ex, fn, args, kwargs):
        self.ex, self.fn, self.args, self.kwargs = ex, fn, args, kwargs
        self._done = False
        self.completed_at = None
        self.value = None
        self.exc = None

    _completed = 0  # class-wide completion counter (completion ORDER is part of the simulated behaviour)

    def _run(self):
        try:
            self.value = self.fn(*self.args, **self.kwargs)
        except BaseException as e:  # noqa: BLE001
            self.exc = e
        self._done = True
        _SimFuture._completed += 1
        self.completed_at = _SimFuture._completed
        for cb in getattr(self, "_cbs", []):
            cb(self)

    # enough of the concurrent.futures.Future interface for as_completed / wait style code
    def add_done_callback(self, cb):
        if self._done:
            cb(self)
        else:
            self.__dict__.setdefault("_cbs", []).append(cb)

    def exception(self, timeout=None):
        self.ex._drain_until(self)
        return self.exc

    def done(self):
        return self._done

    def cancel(self):
        return False

    def cancelled(self):
        return False

    def running(self):
        return False

    def result(self, timeout=None):
        self.ex._drain_until(self)
        if self.exc is not None:
            raise self.exc
        return self.value


def sim_as_completed(futures, timeout=None):
    """concurrent.futures.as_completed over simulated futures: all pending jobs run (in the order /
    interleaving the tape decides) and the futures are yielded in their simulated completion order."""
    futures = list(futures)
    for f in futures:
        f.ex._drain_until(f)
    yield from sorted(futures, key=lambda f: f.completed_at)


def sim_wait(futures, timeout=None, return_when="ALL_COMPLETED"):
    futures = list(futures)
    for f in futures:
        f.ex._drain_until(f)
    return set(futures), set()


def _patch_futures_api(fc):
    """If flox.core (or a change to it) uses as_completed / wait, give it the simulated versions."""
    saved = {}
    for name, repl in (("as_completed", sim_as_completed), ("wait", sim_wait)):
        if hasattr(fc, name):
            saved[name] = getattr(fc, name)
            setattr(fc, name, repl)
    return saved


def _unpatch_futures_api(fc, saved):
    for name, orig in saved.items():
        setattr(fc, name, orig)


class SimExecutor:
    """Drop-in for concurrent.futures.ThreadPoolExecutor inside flox's planner:
    submitted jobs run one at a time, lazily, in an order chosen by the tape."""

    tape = None  # set by install()
    stats = None

    def __init__(self, *a, **k):
        self.pending: list[_SimFuture] = []

    def __enter__(self):
        return self

    def __exit__(self, *exc):
        while self.pending:
            self._run_one()
        return False

    def submit(self, fn, *args, **kwargs):
        f = _SimFuture(self, fn, args, kwargs)
        self.pending.append(f)
        type(self).stats["jobs"] += 1
        return f

    def _run_one(self):
        i = type(self).tape.draw("exec.job", len(self.pending)) if type(self).tape is not None else 0
        if i != 0:
            type(self).stats["reordered"] += 1
        f = self.pending.pop(i)
        f._run()

    def _drain_until(self, fut):
        while not fut._done:
            self._run_one()

    def shutdown(self, wait=True):
        while self.pending:
            self._run_one()


@contextlib.contextmanager
def simulated_planner_pool(tape):
    import flox.core as fc

    cls = type("SimExecutorBound", (SimExecutor,), {"tape": tape, "stats": {"jobs": 0, "reordered": 0}})
    orig = fc.ThreadPoolExecutor
    fc.ThreadPoolExecutor = cls
    saved = _patch_futures_api(fc)
    try:
        yield cls.stats
    finally:
        fc.ThreadPoolExecutor = orig
        _unpatch_futures_api(fc, saved)


class SimClock:
    """Stands in for the `time` module that cachey reads."""

    def __init__(self, tape=None, start: float = 1000.0):
        self.now = start
        self.tape = tape
        self.mode = "normal"
        self.reads = 0

    def time(self):
        self.reads += 1
        if self.mode == "frozen":
            return self.now
        if self.mode == "backward":
            self.now -= 0.5
            return self.now
        if self.mode == "jumpy":
            self.now += 1e6
            return self.now
        self.now += 0.001
        return self.now


@contextlib.contextmanager
def simulated_cache_clock(clock: SimClock):
    import cachey.cache as cc

    orig = cc.time
    cc.time = clock
    try:
        yield clock
    finally:
        cc.time = orig


class PreemptiveSimExecutor(SimExecutor):
    """SimExecutor whose jobs are real threads stepped one *source line* at a time:
    every job runs under a trace function that hands the baton back to the scheduler at each
    line event inside flox code; the tape picks which job advances next.  Exactly one thread
    runs at any moment, so the interleaving is decided by the tape and replays exactly."""

    max_steps = 20000

    def _drain_until(self, fut):
        if fut._done:
            return
        self._run_all_interleaved()

    def __exit__(self, *exc):
        if self.pending:
            self._run_all_interleaved()
        return False

    def shutdown(self, wait=True):
        if self.pending:
            self._run_all_interleaved()

    def _run_all_interleaved(self):
        import sys
        import threading

        jobs = self.pending
        self.pending = []
        tape = type(self).tape
        stats = type(self).stats
        go = [threading.Semaphore(0) for _ in jobs]
        back = threading.Semaphore(0)
        state = ["new"] * len(jobs)  # new | parked | done

        def make_tracer(i):
            def local(frame, event, arg):
                if event == "line":
                    state[i] = "parked"
                    back.release()
                    go[i].acquire()
                return local

            def tracer(frame, event, arg):
                if "/flox/" in frame.f_code.co_filename:
                    return local
                return None

            return tracer

        def body(i, f):
            go[i].acquire()
            sys.settrace(make_tracer(i))
            try:
                f._run()
            finally:
                sys.settrace(None)
                state[i] = "done"
                back.release()

        threads = [threading.Thread(target=body, args=(i, f), daemon=True, name=f"ThreadPoolExecutor-sim_{i}") for i, f in enumerate(jobs)]
        for t in threads:
            t.start()
        steps = 0
        switches = 0
        last = None
        while True:
            alive = [i for i in range(len(jobs)) if state[i] != "done"]
            if not alive:
                break
            steps += 1
            if steps > self.max_steps:
                # stop pre-empting: let every job run to completion one after the other
                for i in alive:
                    pass
            i = alive[tape.draw("exec.step", len(alive)) if (tape is not None and steps <= self.max_steps) else 0]
            if last is not None and i != last:
                switches += 1
            last = i
            go[i].release()
            back.acquire()
        for t in threads:
            t.join(timeout=10)
        stats["jobs"] = stats.get("jobs", 0)
        stats["steps"] = stats.get("steps", 0) + steps
        stats["switches"] = stats.get("switches", 0) + switches


@contextlib.contextmanager
def simulated_planner_pool_preemptive(tape):
    import flox.core as fc

    cls = type("PreemptiveSimExecutorBound", (PreemptiveSimExecutor,), {"tape": tape, "stats": {"jobs": 0, "reordered": 0, "steps": 0, "switches": 0}})
    orig = fc.ThreadPoolExecutor
    fc.ThreadPoolExecutor = cls
    saved = _patch_futures_api(fc)
    try:
        yield cls.stats
    finally:
        fc.ThreadPoolExecutor = orig
        _unpatch_futures_api(fc, saved)
