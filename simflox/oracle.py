"""Comparison rules (DESIGN §4)."""
from __future__ import annotations

import contextlib

import numpy as np

TOL = {
    "mean": (1e-12, 1e-12), "nanmean": (1e-12, 1e-12),
    "var": (1e-9, 1e-9), "nanvar": (1e-9, 1e-9), "std": (1e-9, 1e-9), "nanstd": (1e-9, 1e-9),
    "median": (1e-12, 1e-12), "nanmedian": (1e-12, 1e-12), "quantile": (1e-12, 1e-12), "nanquantile": (1e-12, 1e-12),
}


def tol_for(func, *dtypes):
    """Tolerance for a reduction; single-precision results get single-precision tolerances."""
    rtol, atol = TOL.get(func if isinstance(func, str) else "", (0.0, 0.0))
    if rtol and any(np.dtype(d).kind == "f" and np.dtype(d).itemsize <= 4 for d in dtypes):
        rtol, atol = max(rtol, 2e-5), max(atol, 2e-6)
    return rtol, atol


def values_diff(a, b, *, rtol=0.0, atol=0.0, what="result") -> str | None:
    """Compare two arrays by value after casting to a common dtype."""
    a = np.asarray(a)
    b = np.asarray(b)
    if a.shape != b.shape:
        return f"{what}: shape {a.shape} != {b.shape}"
    if a.dtype.kind == "O" or b.dtype.kind == "O" or a.dtype.kind in "US" or b.dtype.kind in "US":
        la, lb = a.tolist(), b.tolist()
        return None if _objeq(la, lb) else f"{what}: {la!r} != {lb!r}"
    if a.dtype.kind in "mM" or b.dtype.kind in "mM":
        if a.dtype.kind != b.dtype.kind:
            return f"{what}: kind {a.dtype} vs {b.dtype}"
        ok = np.array_equal(a.astype("int64"), b.astype("int64"))
        return None if ok else f"{what}: {a.tolist()!r} != {b.tolist()!r}"
    try:
        ct = np.result_type(a.dtype, b.dtype)
    except TypeError:
        return f"{what}: incomparable dtypes {a.dtype} {b.dtype}"
    a2 = a.astype(ct)
    b2 = b.astype(ct)
    if ct.kind in "fc":
        if rtol or atol:
            ok = np.allclose(a2, b2, rtol=rtol, atol=atol, equal_nan=True)
        else:
            ok = np.array_equal(a2, b2, equal_nan=True)
    else:
        ok = np.array_equal(a2, b2)
    if ok:
        return None
    bad = np.flatnonzero(~_close(a2, b2, rtol, atol).reshape(-1))[:6]
    return f"{what}: {a.tolist()!r} != {b.tolist()!r} (first differing flat slots {bad.tolist()})"


def _close(a, b, rtol, atol):
    if a.dtype.kind in "fc":
        return np.isclose(a, b, rtol=rtol, atol=atol, equal_nan=True)
    return a == b


def _objeq(a, b):
    if isinstance(a, list) and isinstance(b, list):
        return len(a) == len(b) and all(_objeq(x, y) for x, y in zip(a, b))
    try:
        if a != a and b != b:
            return True
    except Exception:  # noqa: BLE001
        pass
    return a == b


def results_diff(res, ref, func, *, exact_data=True) -> str | None:
    """Compare (result, *groups) tuples by value."""
    if len(res) != len(ref):
        return f"number of returned objects {len(res)} != {len(ref)}"
    rtol, atol = tol_for(func, np.asarray(res[0]).dtype, np.asarray(ref[0]).dtype)
    if not exact_data and (rtol == 0.0):
        rtol, atol = 1e-9, 1e-9
    d = values_diff(res[0], ref[0], rtol=rtol, atol=atol, what="result")
    if d:
        return d
    for i, (g1, g2) in enumerate(zip(res[1:], ref[1:])):
        d = values_diff(g1, g2, what=f"groups[{i}]")
        if d:
            return d
    return None


@contextlib.contextmanager
def spy_plan():
    """Record the plan flox resolved (coverage only; never part of a verdict)."""
    import flox.core as fc

    seen = {}
    orig = fc.dask_groupby_agg

    def wrapper(*a, **kw):
        try:
            seen["method"] = kw.get("method")
            r = kw.get("reindex")
            seen["reindex"] = getattr(r, "blockwise", r)
            seen["engine"] = kw.get("engine")
            cc = kw.get("chunks_cohorts")
            seen["ncohorts"] = len(cc) if cc else 0
        except Exception:  # noqa: BLE001
            pass
        return orig(*a, **kw)

    fc.dask_groupby_agg = wrapper
    try:
        yield seen
    finally:
        fc.dask_groupby_agg = orig
